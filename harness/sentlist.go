package main

// C13 (area SentList): a bundle is never sent back to where it came from, nor twice to the same
// peer.  Scenarios on a real routing.Core per routing algorithm (epidemic, spray, binary_spray,
// prophet, dtlsr with broadcast bundles, sensor-mule over epidemic) with 1..5 peers: receptions
// with any previous node, submissions, peers appearing / disappearing (also a second convergence
// sender for the same peer), retry ticks, scripted send failures, restarts; bundles that LEAVE the
// store (direct delivery to the connected destination, expiry + store cleaning of a clock-less
// bundle) and are then RECEIVED AGAIN from another peer (op rerecv: same bundle ID, new previous
// node), also while the spray algorithms still keep stale metadata (op gc runs their collection).
// Observable: the
// per-peer log of (bundle, outcome) of every ConvergenceSender.Send, plus - for the
// correspondence with the model - the store's holdings and the algorithm's `sent` list.

import (
	"fmt"
	"sort"
	"strconv"
	"time"

	"github.com/dtn7/dtn7-go/pkg/bpv7"
	"github.com/dtn7/dtn7-go/pkg/routing"
)

const slBroadcast = "dtn://routing/dtlsr/broadcast/"

type slOp struct {
	kind  string // recv submit up up2 down tick restart failon failoff rerecv expire gc
	b     int    // bundle index
	prev  int    // 0 none, 1..5 peer, 9 another node
	recvr int    // 0 the node itself, i = peer i (the mule lets a sensor have what it "received" for)
	dest  int    // 0 elsewhere, i = peer i's node (direct delivery while connected), 7 = an endpoint of this node
	zt    bool   // clock-less bundle: zero creation time + bundle age block (its store expiry counts from the arrival)
	noblk bool   // binary spray: the received bundle carries no binary-spray block
	lsts  uint64 // dtlsr: the received broadcast carries a DTLSR block from originator dtn://lso/ with this timestamp (0 = no block)
	p     int
}

type slScen struct {
	n       *Node
	algo    string
	npeers  int
	sensor  [6]bool
	shared  int     // 0: every peer has a node name of its own; 1: the peers' endpoint IDs share one dtn node name (dtn://p/, dtn://p/c2 ...); 2: one ipn node number (ipn:5.1, ipn:5.2 ...)
	high    [6]bool // prophet: peers believed to be better forwarders
	failing [6]bool
	ids     map[string]int
	bids    map[int]bpv7.BundleID
	prims   map[int]bpv7.PrimaryBlock // primary block of bundle i as it entered the node (submissions: as numbered by the node)
	ops     map[int]slOp              // the operation that brought bundle i
	mark    int
	fields  []S
}

func (x *slScen) eid(i int) string {
	if x.sensor[i] {
		return "dtn://s" + strconv.Itoa(i) + "/"
	}
	switch x.shared {
	case 1:
		// several convergence layers of ONE node, each announced with an endpoint ID of its own: for
		// the selection and the sent list they are different peers (compared with ==)
		if i == 1 {
			return "dtn://p/"
		}
		return "dtn://p/c" + strconv.Itoa(i)
	case 2:
		return "ipn:5." + strconv.Itoa(i)
	}
	return "dtn://p" + strconv.Itoa(i) + "/"
}

func (x *slScen) peerOf(e bpv7.EndpointID) int {
	for i := 1; i <= 5; i++ {
		if e.String() == x.eid(i) {
			return i
		}
	}
	return 99
}

func slConf(algo string) routing.RoutingConf {
	switch algo {
	case "spray", "binary_spray":
		return routing.RoutingConf{Algorithm: algo, SprayConf: routing.SprayConfig{Multiplicity: 6}}
	case "prophet":
		return routing.RoutingConf{Algorithm: algo, ProphetConf: routing.ProphetConfig{PInit: 0.75, Beta: 0.25, Gamma: 0.98, AgeInterval: "1h"}}
	case "dtlsr":
		return routing.RoutingConf{Algorithm: algo, DTLSRConf: routing.DTLSRConfig{RecomputeTime: "1h", BroadcastTime: "1h", PurgeTime: "1h"}}
	case "mule":
		return routing.RoutingConf{Algorithm: "sensor-mule", SensorMuleConf: routing.SensorNetworkMuleConfig{
			Algorithm: &routing.RoutingConf{Algorithm: "epidemic"}, SensorNodeRegex: "^dtn://s[0-9]+/"}}
	}
	return routing.RoutingConf{Algorithm: algo}
}

func (x *slScen) destOf(op slOp) string {
	if op.dest == 7 {
		return "dtn://n0/inbox"
	}
	if op.dest != 0 {
		return x.eid(op.dest) + "inbox"
	}
	if x.algo == "dtlsr" {
		return slBroadcast
	}
	return "dtn://dest/x"
}

func (x *slScen) setPreds() {
	if x.algo != "prophet" {
		return
	}
	for i := 1; i <= x.npeers; i++ {
		if x.high[i] {
			x.n.Core.VerifProphetSetPeerPred(MustEID(x.eid(i)), MustEID("dtn://dest/x"), 0.9)
			for d := 1; d <= x.npeers && x.shared == 0; d++ { // (shared node names: no bundle is addressed to a peer)
				x.n.Core.VerifProphetSetPeerPred(MustEID(x.eid(i)), MustEID(x.eid(d)+"inbox"), 0.9)
			}
		}
	}
}

func (x *slScen) sends() S {
	var l []S
	for _, r := range x.n.SendsSince(x.mark) {
		b, ok := x.ids[r.ID]
		if !ok {
			continue // routing metadata (PRoPHET summary vectors go by direct delivery only)
		}
		l = append(l, L(I(ikPeerIdx(r.Peer)%10), I(b), B(r.OK)))
	}
	x.mark = x.n.LastSendN()
	return LL(l)
}

func (x *slScen) held() S {
	bis, err := x.n.Core.VerifStore().VerifAll()
	if err != nil {
		panic(err)
	}
	type rec struct {
		b int
		s S
	}
	var rs []rec
	for _, bi := range bis {
		b, ok := x.ids[bi.BId.String()]
		if !ok {
			continue
		}
		eids, known := x.n.Core.VerifSentList(bi.BId)
		var sl []int
		for _, e := range eids {
			sl = append(sl, x.peerOf(e))
		}
		sort.Ints(sl)
		var ss []S
		for _, p := range sl {
			ss = append(ss, I(p))
		}
		rs = append(rs, rec{b, L(I(b), B(bi.Pending), B(known), LL(ss))})
	}
	sort.Slice(rs, func(i, j int) bool { return rs[i].b < rs[j].b })
	var l []S
	for _, r := range rs {
		l = append(l, r.s)
	}
	return LL(l)
}

func (x *slScen) conn() S {
	var names []string
	for name := range x.n.Peers {
		names = append(names, name)
	}
	sort.Strings(names)
	var l []S
	for _, nm := range names {
		l = append(l, I(ikPeerIdx(nm)%10))
	}
	return LL(l)
}

// recvBlocks: the extension blocks of a bundle handed in by a convergence layer
func (x *slScen) recvBlocks(bl *bpv7.BundleBuilder, op slOp, age uint64) *bpv7.BundleBuilder {
	switch {
	case op.prev >= 1 && op.prev <= 5:
		bl = bl.PreviousNodeBlock(x.eid(op.prev))
	case op.prev == 9:
		bl = bl.PreviousNodeBlock("dtn://other/")
	}
	if x.algo == "binary_spray" && !op.noblk {
		bl = bl.Canonical(bpv7.NewBinarySprayBlock(8))
	}
	if x.algo == "dtlsr" && op.lsts != 0 {
		bl = bl.Canonical(bpv7.NewDTLSRBlock(bpv7.DTLSRPeerData{ID: MustEID("dtn://lso/"), Timestamp: bpv7.DtnTime(op.lsts),
			Peers: map[bpv7.EndpointID]bpv7.DtnTime{MustEID("dtn://lsp/"): 0}}))
	}
	if op.zt {
		bl = bl.BundleAgeBlock(age)
	}
	return bl
}

func (x *slScen) do(op slOp) {
	n := x.n
	head := []S{Sym(op.kind)}
	switch op.kind {
	case "rerecv":
		// the same bundle (same source, creation timestamp, sequence number) arrives again, relayed by
		// another node: new previous node, fresh spray block, (clock-less: a smaller age - a faster path)
		pb, ok := x.prims[op.b]
		if !ok {
			panic("rerecv of an unknown bundle")
		}
		orig := x.ops[op.b]
		rop := orig
		rop.prev, rop.recvr, rop.noblk = op.prev, op.recvr, op.noblk
		bl := bpv7.Builder().CRC(bpv7.CRC32).Source(pb.SourceNode).Destination(pb.Destination).Lifetime(time.Hour).
			CreationTimestampNow().PayloadBlock([]byte("B" + strconv.Itoa(op.b)))
		b, err := x.recvBlocks(bl, rop, 1000).Build()
		if err != nil {
			panic(err)
		}
		b.PrimaryBlock.CreationTimestamp = pb.CreationTimestamp
		if b.ID() != x.bids[op.b] {
			panic("rerecv: bundle ID differs")
		}
		held := n.Knows(b.ID())
		from := n.ID
		if op.recvr != 0 {
			from = MustEID(x.eid(op.recvr))
		}
		n.Event++
		n.Core.VerifReceive(b, from)
		head = append(head, I(op.b), I(op.prev), I(op.recvr), I(orig.dest), B(x.algo != "binary_spray" || !op.noblk), B(held))
	case "expire":
		// the bundle's time in the store runs out (the item's expiry instant is moved into the past), then
		// the clean_store job runs
		st := n.Core.VerifStore()
		if bid, ok := x.bids[op.b]; ok {
			if bi, err := st.QueryId(bid); err == nil {
				bi.Expires = time.Now().Add(-time.Second)
				if err := st.Update(bi); err != nil {
					panic(err)
				}
			}
		}
		n.TickClean()
		head = append(head, I(op.b))
	case "gc":
		n.Core.VerifSprayGC()
	case "recv", "submit":
		src := "dtn://src" + strconv.Itoa(op.b) + "/app"
		if op.kind == "submit" {
			src = "dtn://n0/app"
		}
		bl := bpv7.Builder().CRC(bpv7.CRC32).Source(src).Destination(x.destOf(op)).Lifetime(time.Hour).
			PayloadBlock([]byte("B" + strconv.Itoa(op.b)))
		if op.zt && op.kind == "recv" {
			bl = bl.CreationTimestampEpoch()
		} else {
			bl = bl.CreationTimestampNow()
		}
		if op.kind == "recv" {
			bl = x.recvBlocks(bl, op, 3500000)
		}
		b, err := bl.Build()
		if err != nil {
			panic(err)
		}
		if op.zt && op.kind == "recv" {
			b.PrimaryBlock.CreationTimestamp[1] = uint64(op.b)
		}
		x.ops[op.b] = op
		n.Event++
		if op.kind == "submit" {
			n.Core.SendBundle(&b) // the node numbers the bundle in place
			x.ids[b.ID().String()] = op.b
			x.bids[op.b] = b.ID()
			x.prims[op.b] = b.PrimaryBlock
			head = append(head, I(op.b), I(op.dest))
		} else {
			x.ids[b.ID().String()] = op.b
			x.bids[op.b] = b.ID()
			x.prims[op.b] = b.PrimaryBlock
			from := n.ID
			if op.recvr != 0 {
				from = MustEID(x.eid(op.recvr))
			}
			n.Core.VerifReceive(b, from)
			head = append(head, I(op.b), I(op.prev), I(op.recvr), I(op.dest), B(x.algo != "binary_spray" || !op.noblk))
		}
	case "up", "up2":
		name := "p" + strconv.Itoa(op.p)
		if op.kind == "up2" {
			name = "p1" + strconv.Itoa(op.p) // second convergence sender of the same peer
		}
		i := op.p
		x.setPreds()
		n.PeerUpWith(name, x.eid(op.p), func(rec *SendRec) bool { return x.failing[i] })
		head = append(head, I(op.p))
	case "down":
		n.PeerDown("p" + strconv.Itoa(op.p))
		n.PeerDown("p1" + strconv.Itoa(op.p))
		head = append(head, I(op.p))
	case "tick":
		n.TickPending()
	case "restart":
		n.Core.VerifCloseAgents()
		n.Restart()
		x.setPreds()
	case "failon":
		x.failing[op.p] = true
		head = append(head, I(op.p))
	case "failoff":
		x.failing[op.p] = false
		head = append(head, I(op.p))
	}
	// sends of a submission are recorded before its ID is known: map them now
	head = append(head, x.sends(), x.held(), x.conn())
	x.fields = append(x.fields, LL(head))
}

func slRunScen(o *Out, name, algo string, npeers int, sensors, high []int, ops []slOp) {
	slRunScenNamed(o, name, algo, 0, npeers, sensors, high, ops)
}

// slRunScenNamed: shared != 0 gives the peers endpoint IDs that share one node name (see eid); the
// case body is the same (peers are indices), the naming scheme is part of the scenario name.
func slRunScenNamed(o *Out, name, algo string, shared int, npeers int, sensors, high []int, ops []slOp) {
	x := &slScen{algo: algo, shared: shared, npeers: npeers, ids: map[string]int{}, bids: map[int]bpv7.BundleID{},
		prims: map[int]bpv7.PrimaryBlock{}, ops: map[int]slOp{}}
	for _, s := range sensors {
		x.sensor[s] = true
	}
	for _, h := range high {
		x.high[h] = true
	}
	x.n = NewNode("dtn://n0/", slConf(algo))
	defer func() { x.n.Core.VerifCloseAgents(); x.n.Destroy() }()
	var ss, hs []S
	for _, s := range sensors {
		ss = append(ss, I(s))
	}
	for _, h := range high {
		hs = append(hs, I(h))
	}
	x.fields = []S{Sym(name), Sym(algo), I(npeers), LL(ss), LL(hs)}
	for _, op := range ops {
		x.do(op)
	}
	o.Case("scen", x.fields...)
}

var slAlgos = []string{"epidemic", "spray", "binary_spray", "prophet", "dtlsr", "mule"}

func slAll(n int) []int {
	var r []int
	for i := 1; i <= n; i++ {
		r = append(r, i)
	}
	return r
}

// newOp is how a bundle enters the node under this algorithm: spray only relays bundles it
// originated, the others are handed receptions (with a previous node) and submissions.
func slNewOp(algo string, b, prev int, r *Rng) slOp {
	if algo == "spray" || (r != nil && r.Intn(5) == 0) {
		return slOp{kind: "submit", b: b}
	}
	return slOp{kind: "recv", b: b, prev: prev}
}

func first2(algo string) slOp {
	op := slNewOp(algo, 1, 9, nil)
	op.dest = 3
	return op
}

func genC13sentlist(o *Out, r *Rng, thorough bool) {
	defer fastWorkDir("verif-c13-")()
	up := func(p int) slOp { return slOp{kind: "up", p: p} }
	tick := slOp{kind: "tick"}
	for _, algo := range slAlgos {
		var sens []int
		if algo == "mule" {
			sens = []int{3}
		}
		// a failed transmission makes the peer eligible again; a successful one does not
		slRunScen(o, "fail-then-ok", algo, 2, sens, slAll(2), []slOp{{kind: "failon", p: 1}, up(1), slNewOp(algo, 1, 0, nil),
			{kind: "failoff", p: 1}, tick, tick, up(2), tick})
		// never back to the previous node, memory across retries and a restart
		slRunScen(o, "prev-restart", algo, 3, sens, slAll(3), []slOp{up(1), up(2), slNewOp(algo, 1, 1, nil), tick, {kind: "restart"},
			up(1), up(2), up(3), tick})
		// two convergence senders of one peer; a peer that goes and comes back
		slRunScen(o, "two-senders", algo, 2, sens, slAll(2), []slOp{up(1), {kind: "up2", p: 1}, slNewOp(algo, 1, 9, nil), tick,
			{kind: "down", p: 1}, up(1), up(2), tick})
		// failure of one of several, then restart before the retry
		slRunScen(o, "fail-restart", algo, 3, sens, slAll(3), []slOp{up(1), up(2), {kind: "failon", p: 2}, slNewOp(algo, 1, 0, nil),
			{kind: "restart"}, {kind: "failoff", p: 2}, up(2), up(1), tick})
	}
	// the mule: sensors only get what was received for them
	slRunScen(o, "mule-sensors", "mule", 4, []int{2, 3}, nil, []slOp{up(1), up(2), up(3), {kind: "recv", b: 1, prev: 1, recvr: 2},
		{kind: "recv", b: 2, prev: 0}, up(4), tick})
	// binary spray: a bundle relayed by a node that does not speak binary spray (no spray block)
	slRunScen(o, "bspray-noblock", "binary_spray", 2, nil, nil, []slOp{up(1), up(2), {kind: "recv", b: 1, prev: 1, noblk: true}, tick})
	// dtlsr: link-state broadcasts of one originator arriving out of order (the older one after the
	// newer one, and one with an equal timestamp): each is still relayed, never back to where it came from
	slRunScen(o, "dtlsr-outdated-linkstate", "dtlsr", 3, nil, nil, []slOp{up(1), up(2), up(3),
		{kind: "recv", b: 1, prev: 1, lsts: 1000}, {kind: "recv", b: 2, prev: 2, lsts: 500}, {kind: "recv", b: 3, prev: 3, lsts: 1000}, tick})
	// a bundle that left the node and comes back from ANOTHER neighbour: relayed, delivered directly to its
	// destination (deleted), destination gone, received again; the same after its time in the store ran
	// out (clock-less bundle, store cleaned); a duplicate while the first copy is still held
	for _, algo := range slAlgos {
		var sens []int
		if algo == "mule" {
			sens = []int{5}
		}
		first := slNewOp(algo, 1, 1, nil)
		if algo != "dtlsr" { // a DTLSR bundle for one node is not a broadcast bundle (single next hop: not this property)
			first.dest = 4
			slRunScen(o, "back-after-direct", algo, 4, sens, slAll(4), []slOp{up(1), up(2), up(3), first, up(4), {kind: "down", p: 4},
				{kind: "rerecv", b: 1, prev: 3}, tick, {kind: "down", p: 1}, up(1), tick})
			slRunScen(o, "back-after-direct-gc", algo, 3, sens, slAll(3), []slOp{up(1), up(2), {kind: "failon", p: 2}, first2(algo), up(3), {kind: "down", p: 3},
				{kind: "gc"}, {kind: "failoff", p: 2}, {kind: "rerecv", b: 1, prev: 2}, {kind: "rerecv", b: 1, prev: 1}, tick})
		}
		first = slNewOp(algo, 1, 1, nil)
		first.zt = true
		slRunScen(o, "back-after-expiry", algo, 3, sens, slAll(3), []slOp{up(1), up(2), first, {kind: "expire", b: 1},
			{kind: "rerecv", b: 1, prev: 2}, up(3), tick})
		slRunScen(o, "back-while-held", algo, 3, sens, slAll(3), []slOp{up(1), up(2), slNewOp(algo, 1, 1, nil),
			{kind: "rerecv", b: 1, prev: 2}, up(3), tick})
	}
	// direct delivery bypasses the algorithm
	slRunScen(o, "direct", "epidemic", 2, nil, nil, []slOp{up(1), {kind: "recv", b: 1, prev: 9, dest: 2}, up(2), tick})

	nrand := 24
	if thorough {
		nrand = 500
	}
	randScen := func(algo string, shared int) {
		{
			np := 1 + r.Intn(5)
			var sens, high []int
			for i := 1; i <= np; i++ {
				if algo == "mule" && r.Intn(3) == 0 {
					sens = append(sens, i)
				}
				if r.Intn(6) != 0 {
					high = append(high, i)
				}
			}
			var ops []slOp
			nb := 0
			clockless := map[int]bool{}
			dests := map[int]int{}
			conn := map[int]bool{}
			two := map[int]bool{} // a second convergence sender of the peer is registered
			fail := map[int]bool{}
			ln := 5 + r.Intn(10)
			for i := 0; i < ln; i++ {
				if nb > 0 && r.Intn(6) == 0 {
					// a bundle comes back (from a peer, from elsewhere, without a previous node), its time in
					// the store runs out, or the spray metadata is collected
					b := 1 + r.Intn(nb)
					switch k := r.Intn(6); {
					case k < 3:
						op := slOp{kind: "rerecv", b: b, prev: []int{0, 9, 1 + r.Intn(np), 1 + r.Intn(np), 1 + r.Intn(np)}[r.Intn(5)]}
						if op.prev == dests[b] {
							op.prev = 9 // the destination itself does not relay the bundle back
						}
						if algo == "binary_spray" && r.Intn(6) == 0 {
							op.noblk = true
						}
						if algo == "mule" && len(sens) > 0 && r.Intn(3) == 0 {
							op.recvr = sens[r.Intn(len(sens))]
						}
						ops = append(ops, op)
					case k < 5 && clockless[b]:
						ops = append(ops, slOp{kind: "expire", b: b})
					default:
						ops = append(ops, slOp{kind: "gc"})
					}
					continue
				}
				switch q := r.Intn(20); {
				case q < 5:
					p := 1 + r.Intn(np)
					if conn[p] {
						if r.Intn(3) == 0 && !two[p] {
							ops = append(ops, slOp{kind: "up2", p: p})
							two[p] = true
						} else {
							ops = append(ops, slOp{kind: "down", p: p})
							conn[p] = false
							two[p] = false
						}
					} else {
						ops = append(ops, up(p))
						conn[p] = true
					}
				case q < 9 && nb < 3:
					nb++
					prev := []int{0, 9, 1 + r.Intn(np), 1 + r.Intn(np)}[r.Intn(4)]
					op := slNewOp(algo, nb, prev, r)
					if op.kind == "recv" && algo == "binary_spray" && r.Intn(6) == 0 {
						op.noblk = true
					}
					if op.kind == "recv" && algo == "mule" && len(sens) > 0 && r.Intn(3) == 0 {
						op.recvr = sens[r.Intn(len(sens))]
					}
					if algo != "dtlsr" && r.Intn(4) == 0 {
						d := 1 + r.Intn(np)
						if d != op.prev && shared == 0 { // direct delivery goes by the node name: peers sharing one are never destinations
							op.dest = d
						}
					} else if algo != "dtlsr" && r.Intn(12) == 0 {
						op.dest = 7
					}
					if op.kind == "recv" && r.Intn(3) == 0 {
						op.zt = true
						clockless[nb] = true
					}
					dests[nb] = op.dest
					ops = append(ops, op)
				case q < 13:
					ops = append(ops, tick)
				case q < 17:
					p := 1 + r.Intn(np)
					// at most one peer fails at a time: two failure reports for one bundle would run
					// concurrently (their lost update is not this property's subject)
					if fail[p] {
						ops = append(ops, slOp{kind: "failoff", p: p})
						delete(fail, p)
					} else if len(fail) == 0 {
						ops = append(ops, slOp{kind: "failon", p: p})
						fail[p] = true
					} else {
						for q := range fail {
							ops = append(ops, slOp{kind: "failoff", p: q})
						}
						fail = map[int]bool{}
					}
				case q < 18:
					ops = append(ops, slOp{kind: "restart"})
					conn = map[int]bool{}
					two = map[int]bool{}
				default:
					ops = append(ops, tick)
				}
			}
			// a calm end: every peer healthy and connected, two retry rounds
			for p := 1; p <= np; p++ {
				if fail[p] {
					ops = append(ops, slOp{kind: "failoff", p: p})
					delete(fail, p)
				}
				if !conn[p] {
					ops = append(ops, up(p))
				}
			}
			ops = append(ops, tick, tick)
			name := fmt.Sprintf("rand-%s", algo)
			if shared != 0 {
				name = fmt.Sprintf("rand-%s-samenode%d", algo, shared)
			}
			slRunScenNamed(o, name, algo, shared, np, sens, high, ops)
		}
	}
	for _, algo := range slAlgos {
		for c := 0; c < nrand; c++ {
			randScen(algo, 0)
		}
	}

	// Peers whose endpoint IDs share the node name and differ in the rest (several convergence layers of one
	// node announced with their own endpoint IDs: dtn://p/ and dtn://p/c2, ipn:5.1 and ipn:5.2).  The
	// selection and the sent list compare endpoint IDs, so these are different peers in every role: previous
	// node, acknowledged, failed.  Fixed scenarios per algorithm and naming scheme, then random histories.
	for _, algo := range slAlgos {
		for shared := 1; shared <= 2; shared++ {
			tag := fmt.Sprintf("-samenode%d", shared)
			// the transmission to one endpoint fails while another endpoint of that node is acknowledged
			slRunScenNamed(o, "fail-beside-acked"+tag, algo, shared, 3, nil, slAll(3), []slOp{up(1), up(2), {kind: "failon", p: 2},
				slNewOp(algo, 1, 0, nil), {kind: "failoff", p: 2}, tick, up(3), tick})
			// ... while another endpoint of that node is the previous node
			slRunScenNamed(o, "fail-beside-previous"+tag, algo, shared, 3, nil, slAll(3), []slOp{up(1), up(2), up(3), {kind: "failon", p: 3},
				slNewOp(algo, 1, 1, nil), {kind: "failoff", p: 3}, tick, tick})
			// the later endpoint is the previous node, the first one fails; memory across a restart
			slRunScenNamed(o, "prev-fail-restart"+tag, algo, shared, 3, nil, slAll(3), []slOp{up(1), up(2), {kind: "failon", p: 1},
				slNewOp(algo, 1, 2, nil), tick, {kind: "restart"}, {kind: "failoff", p: 1}, up(2), up(1), up(3), tick})
		}
	}
	nshared := 6
	if thorough {
		nshared = 200
	}
	for _, algo := range slAlgos {
		for c := 0; c < nshared; c++ {
			randScen(algo, 1+c%2)
		}
	}
}

func init() { register("C13sentlist", genC13sentlist) }
