package main

// C12 (BBC part, sender half): outgoing trains of Connector.Send while failure reports are pending.
//
// Connector.failTransmission is drained only inside Send, and Send usually returns before a receiver
// can complain: failure reports of an earlier damaged transfer (and reports for transmissions between
// other nodes on the shared medium) are still queued when the NEXT Send runs, or arrive in the middle
// of a running Send.  History on ONE Connector (not started: the harness itself takes the fragments
// from the outgoing queue, so a long train blocks Send at a full queue exactly where the harness wants
// it): per Send a list of reports queued before it and a list of reports injected while Send is blocked
// in the middle of its train; every report names the id of this Send (own), of the previous Send
// (stale) or another id (foreign).  Rule: without an own report Send succeeds and the fragments put on
// the link are the complete train (consecutive sequence numbers, start/end marks on first/last,
// payloads = the blob); with an own report Send returns an error and the train is not completed.

import (
	"runtime"
	"time"

	"github.com/dtn7/dtn7-go/pkg/bpv7"
	"github.com/dtn7/dtn7-go/pkg/cla/bbc"
)

const c12PendWait = 90 * time.Second

type c12PendSend struct {
	b    int   // bundle index
	pre  []int // report ids relative to the id of this Send: 0 = own, -1 = previous Send, other = foreign (id + d)
	mid  []int
	full bool // pre is repeated until the queue of reports is full (64)
}

func c12PendHistory(o *Out, mtu int, bundles []bpv7.Bundle, blobs [][]byte, sends []c12PendSend) {
	m := newScriptModem(mtu)
	c := bbc.NewConnector(m, false) // not started: nothing but Send touches the queues
	timeout := false
	// Send in a goroutine, the harness takes the fragments out of the outgoing queue
	run := func(b bpv7.Bundle, atFull func()) (fs []bbc.Fragment, err error) {
		done := make(chan error, 1)
		go func() { done <- c.Send(b) }()
		deadline := time.Now().Add(c12PendWait)
		if atFull != nil {
			for {
				n, capacity := c.VerifFragmentOutLen()
				if n == capacity {
					break
				}
				select {
				case err = <-done:
					return append(fs, c.VerifDrainFragmentOut()...), err
				default:
				}
				if time.Now().After(deadline) {
					timeout = true
					break
				}
				runtime.Gosched()
			}
			atFull()
		}
		for i := 0; ; i++ {
			select {
			case err = <-done:
				return append(fs, c.VerifDrainFragmentOut()...), err
			default:
			}
			fs = append(fs, c.VerifDrainFragmentOut()...)
			if i%64 == 63 {
				if time.Now().After(deadline) {
					timeout = true
					return fs, nil
				}
				time.Sleep(20 * time.Microsecond)
			} else {
				runtime.Gosched()
			}
		}
	}
	report := func(tid byte) {
		_ = c.VerifHandleIncomingFragment(bbc.NewFragment(tid, 3, false, false, true, nil))
	}
	// learn the current id from a probe Send
	fs, err := run(bundles[0], nil)
	if err != nil || len(fs) == 0 || timeout {
		o.Case("sendpend", I(mtu), Sym("probe-failed"))
		return
	}
	cur := fs[0].TransmissionID()
	var out []S
	for _, s := range sends {
		prev := cur
		cur = bbc.VerifNextTransmissionId(cur)
		id := func(d int) byte {
			if d == -1 {
				return prev
			}
			return byte(int(cur) + d)
		}
		var pre, mid []S
		nfrag := (len(blobs[s.b]) + mtu - 3) / (mtu - 2)
		for rep := 0; rep == 0 || (s.full && len(pre)+len(s.pre) <= 64); rep++ {
			for _, d := range s.pre {
				report(id(d))
				pre = append(pre, U(uint64(id(d))))
			}
		}
		var atFull func()
		if len(s.mid) > 0 && nfrag > 66 {
			for _, d := range s.mid {
				mid = append(mid, U(uint64(id(d))))
			}
			atFull = func() {
				for _, d := range s.mid {
					report(id(d))
				}
			}
		}
		fs, err := run(bundles[s.b], atFull)
		left := c.VerifDrainFailTransmission() // reports a Send that ended early did not look at
		sawEnd := false
		for _, f := range fs {
			if f.EndBit() {
				sawEnd = true
			}
		}
		if atFull != nil && len(fs) > 64 {
			for _, d := range s.mid {
				if d == 0 {
					// whether Send had already produced fragment 65 when the own report was injected is the
					// scheduler's choice: the fragments that filled the queue are the canonical observation
					fs = fs[:64]
					break
				}
			}
		}
		out = append(out, L(X(blobs[s.b]), U(uint64(cur)), LL(pre), LL(mid), B(err != nil), fragsS(fs), I(len(left)), B(sawEnd)))
		if timeout {
			break
		}
	}
	o.Case("sendpend", I(mtu), Sym("ok"), B(timeout), LL(out))
}

func c12Pend(o *Out, r *Rng, thorough bool) {
	var bundles []bpv7.Bundle
	var blobs [][]byte
	for i, pl := range []int{0, 5, 40, 300} {
		b := c12Bundle(r, pl, 40+i)
		blob, _, err := c12Train(0, b, 64)
		if err != nil {
			panic(err)
		}
		bundles = append(bundles, b)
		blobs = append(blobs, blob)
	}
	S1 := func(b int, pre []int, mid []int) c12PendSend { return c12PendSend{b, pre, mid, false} }
	mtus := []int{3, 4, 17, 64, 255}
	if thorough {
		mtus = []int{3, 4, 5, 7, 16, 17, 18, 33, 64, 100, 255, 1000}
	}
	for _, mtu := range mtus {
		// directed history: foreign / stale reports before the Send, own report, more reports than fragments,
		// the same in the middle of a train
		c12PendHistory(o, mtu, bundles, blobs, []c12PendSend{
			S1(1, nil, nil),
			S1(2, []int{5}, nil),
			S1(0, []int{-1}, nil),
			S1(3, []int{7, 100}, nil),
			S1(1, []int{-1, 2, 200}, nil),
			S1(2, []int{0}, nil),
			S1(2, []int{-1}, nil), // the report that stopped the previous Send arrives once more
			S1(0, []int{9, 0}, nil),
			S1(1, []int{0, 9}, nil),
			S1(3, []int{1, 1, 1, 1, 1}, nil),
			{0, []int{3, -1}, nil, true},
			S1(1, nil, []int{5}),
			S1(2, nil, []int{-1, 6, 7}),
			S1(3, []int{8}, []int{9}),
			S1(3, nil, []int{0}),
			S1(2, nil, []int{5, 0}),
			S1(1, []int{-1}, nil),
			S1(0, nil, nil),
		})
	}
	n := 12
	if thorough {
		n = 200
	}
	for c := 0; c < n; c++ {
		mtu := []int{3, 3, 4, 5, 9, 17, 40, 64, 100}[r.Intn(9)]
		var sends []c12PendSend
		ln := 2 + r.Intn(5)
		for i := 0; i < ln; i++ {
			rel := func() []int {
				var l []int
				for k := r.Intn(4); k > 0; k-- {
					switch r.Intn(8) {
					case 0:
						l = append(l, 0)
					case 1, 2:
						l = append(l, -1)
					default:
						l = append(l, 1+r.Intn(250))
					}
				}
				return l
			}
			s := c12PendSend{b: r.Intn(len(bundles))}
			if r.Intn(4) > 0 {
				s.pre = rel()
			}
			if r.Intn(3) == 0 {
				s.mid = rel()
			}
			sends = append(sends, s)
		}
		c12PendHistory(o, mtu, bundles, blobs, sends)
	}
}
