package main

// auxcbor: the CBOR-based auxiliary wire formats (C17 part) and their decoders as attack surface
// (C04 part): creation timestamp, endpoint ID (CBOR and URI), bundle ID, status item / status
// report / administrative record, discovery announcements, WebSocket-agent messages, and the REST
// build request (bpv7.BuildFromMap).
//
//   C17auxcbor  in-process: encoders and decoders on structured values with boundary fields,
//               exhaustive code fields, truncations, streams of mixed messages; endpoint URIs.
//   C04auxcbor  every untrusted input (count / length positions overwritten, truncations, mutations,
//               URIs, JSON build requests) is decoded in a CHILD process with an address-space
//               limit and a watchdog; observable = outcome class + runtime.MemStats.TotalAlloc delta.

import (
	"bufio"
	"bytes"
	"encoding/json"
	"fmt"
	"io"
	"os"
	"os/exec"
	"runtime"
	"sort"
	"strconv"
	"strings"
	"syscall"
	"time"

	"github.com/dtn7/cboring"

	"github.com/dtn7/dtn7-go/pkg/agent"
	"github.com/dtn7/dtn7-go/pkg/bpv7"
	"github.com/dtn7/dtn7-go/pkg/cla"
	"github.com/dtn7/dtn7-go/pkg/discovery"
)

// ---------------------------------------------------------------------------------------------
// values and their canonical dumps

type axAdm struct{ sr *bpv7.StatusReport }
type axAnns []discovery.Announcement

func axEidS(e bpv7.EndpointID) S {
	switch t := e.EndpointType.(type) {
	case bpv7.DtnEndpoint:
		if t.IsDtnNone {
			return L(Sym("none"))
		}
		return L(Sym("dtn"), Str(t.NodeName), Str(t.Demux))
	case bpv7.IpnEndpoint:
		return L(Sym("ipn"), U(t.Node), U(t.Service))
	}
	return L(Sym("nil"))
}
func axBidS(b bpv7.BundleID) S {
	return L(Sym("bid"), axEidS(b.SourceNode), U(b.Timestamp[0]), U(b.Timestamp[1]), B(b.IsFragment), U(b.FragmentOffset), U(b.TotalDataLength))
}
func axItemS(i bpv7.BundleStatusItem) S {
	return L(Sym("it"), B(i.Asserted), U(uint64(i.Time)), B(i.StatusRequested))
}
func axSrS(s *bpv7.StatusReport) S {
	var its []S
	for _, i := range s.StatusInformation {
		its = append(its, axItemS(i))
	}
	return L(Sym("sr"), LL(its), U(uint64(s.ReportReason)), axBidS(s.RefBundle))
}
func axAnnS(a discovery.Announcement) S {
	return L(Sym("ann"), U(uint64(a.Type)), axEidS(a.Endpoint), U(uint64(a.Port)))
}
func axWamS(w agent.VerifWam) S {
	var b S = L()
	if w.Code == 2 {
		enc, err := encodeBundle(&w.Bundle)
		if err != nil {
			b = L(Sym("unencodable"))
		} else {
			b = L(Sym("b"), X(enc))
		}
	}
	return L(Sym("wam"), U(w.Code), Str(w.Text), X(w.Response), b)
}

func axKind(v interface{}) string {
	switch x := v.(type) {
	case bpv7.CreationTimestamp:
		return "cts"
	case bpv7.EndpointID:
		return "eid"
	case bpv7.BundleID:
		if x.IsFragment {
			return "bid1"
		}
		return "bid0"
	case bpv7.BundleStatusItem:
		return "sitem"
	case *bpv7.StatusReport:
		return "sreport"
	case axAdm:
		return "admrec"
	case discovery.Announcement:
		return "ann"
	case axAnns:
		return "anns"
	case agent.VerifWam:
		return "wam"
	}
	panic("axKind")
}

func axDump(v interface{}) S {
	switch x := v.(type) {
	case bpv7.CreationTimestamp:
		return L(Sym("cts"), U(x[0]), U(x[1]))
	case bpv7.EndpointID:
		return axEidS(x)
	case bpv7.BundleID:
		return axBidS(x)
	case bpv7.BundleStatusItem:
		return axItemS(x)
	case *bpv7.StatusReport:
		return axSrS(x)
	case axAdm:
		return L(Sym("ar"), axSrS(x.sr))
	case discovery.Announcement:
		return axAnnS(x)
	case axAnns:
		var as []S
		for _, a := range x {
			as = append(as, axAnnS(a))
		}
		return L(Sym("anns"), LL(as))
	case agent.VerifWam:
		return axWamS(x)
	}
	panic("axDump")
}

func axEnc(v interface{}) (out []byte, err error) {
	var buf bytes.Buffer
	err = axEncTo(v, &buf)
	if err != nil && strings.HasPrefix(err.Error(), "panic: ") {
		return nil, err
	}
	return buf.Bytes(), err
}

// axEncTo runs the real encoder of the value's kind on the writer.
func axEncTo(v interface{}, w io.Writer) (err error) {
	defer func() {
		if r := recover(); r != nil {
			err = fmt.Errorf("panic: %v", r)
		}
	}()
	switch x := v.(type) {
	case bpv7.CreationTimestamp:
		err = cboring.Marshal(&x, w)
	case bpv7.EndpointID:
		err = cboring.Marshal(&x, w)
	case bpv7.BundleID:
		err = cboring.Marshal(&x, w)
	case bpv7.BundleStatusItem:
		err = cboring.Marshal(&x, w)
	case *bpv7.StatusReport:
		err = cboring.Marshal(x, w)
	case axAdm:
		err = bpv7.GetAdministrativeRecordManager().WriteAdministrativeRecord(x.sr, w)
	case discovery.Announcement:
		err = cboring.Marshal(&x, w)
	case axAnns:
		var d []byte
		d, err = discovery.MarshalAnnouncements([]discovery.Announcement(x))
		_, _ = w.Write(d)
	case agent.VerifWam:
		err = agent.VerifWamMarshal(x, w)
	default:
		panic("axEnc")
	}
	return err
}

// axDec runs the real decoder of the kind on the reader; consumed is what the decoder took from it
// (-1: the decoder takes a byte slice and does not tell).
func axDec(kind string, data []byte) (v interface{}, consumed int, err error) {
	rd := bytes.NewReader(data)
	consumed = -2
	switch kind {
	case "cts":
		var x bpv7.CreationTimestamp
		err = cboring.Unmarshal(&x, rd)
		v = x
	case "eid":
		var x bpv7.EndpointID
		err = cboring.Unmarshal(&x, rd)
		v = x
	case "bid0", "bid1":
		x := bpv7.BundleID{IsFragment: kind == "bid1"}
		err = cboring.Unmarshal(&x, rd)
		v = x
	case "sitem":
		var x bpv7.BundleStatusItem
		err = cboring.Unmarshal(&x, rd)
		v = x
	case "sreport":
		x := &bpv7.StatusReport{}
		err = cboring.Unmarshal(x, rd)
		v = x
	case "admrec":
		var ar bpv7.AdministrativeRecord
		ar, err = bpv7.GetAdministrativeRecordManager().ReadAdministrativeRecord(rd)
		if err == nil {
			v = axAdm{ar.(*bpv7.StatusReport)}
		}
	case "ann":
		var x discovery.Announcement
		err = cboring.Unmarshal(&x, rd)
		v = x
	case "anns":
		var x []discovery.Announcement
		x, err = discovery.UnmarshalAnnouncements(data)
		v = axAnns(x)
		consumed = -1
	case "wam":
		var x agent.VerifWam
		x, err = agent.VerifWamUnmarshal(rd)
		v = x
	default:
		panic("axDec kind " + kind)
	}
	if consumed == -2 {
		consumed = len(data) - rd.Len()
	}
	return
}

// axDecObs: (ok <dump> consumed) | (err) | (panic xmsg)
func axDecObs(kind string, data []byte) (obs S) {
	defer func() {
		if r := recover(); r != nil {
			obs = L(Sym("panic"), Str(fmt.Sprint(r)))
		}
	}()
	v, c, err := axDec(kind, data)
	if err != nil {
		return L(Sym("err"))
	}
	return L(Sym("ok"), axDump(v), I64(int64(c)))
}

// every case starts with the clock the model's CheckValid needs for a bundle inside a WAM message
var axNow uint64

func axCase(o *Out, kind string, fields ...S) {
	if axNow == 0 {
		axNow = dtnNowMs()
	}
	o.Case(kind, append([]S{U(axNow)}, fields...)...)
}

// ---------------------------------------------------------------------------------------------
// generators of structured values

var axB = []uint64{0, 1, 23, 24, 255, 256, 65535, 65536, 1<<32 - 1, 1 << 32, 1<<64 - 1}
var axLens = []int{0, 1, 23, 24, 255, 256, 65535, 65536}

func axStr(r *Rng, n int, alphabet string) string {
	b := make([]byte, n)
	for i := range b {
		b[i] = alphabet[r.Intn(len(alphabet))]
	}
	return string(b)
}

const axNodeChars = "abcdefghijklmnopqrstuvwxyzABCDEFGHIJKLMNOPQRSTUVWXYZ0123456789-._"

func axDtn(node, demux string) bpv7.EndpointID {
	return bpv7.EndpointID{EndpointType: bpv7.DtnEndpoint{NodeName: node, Demux: demux}}
}
func axIpn(n, s uint64) bpv7.EndpointID {
	return bpv7.EndpointID{EndpointType: bpv7.IpnEndpoint{Node: n, Service: s}}
}

// valid endpoint IDs with boundary fields
func axValidEID(r *Rng) bpv7.EndpointID {
	switch r.Intn(8) {
	case 0:
		return bpv7.DtnNone()
	case 1, 2, 3:
		return axIpn(r.Pick(axB[1:]), r.Pick(axB[1:]))
	case 4:
		return axDtn(axStr(r, []int{1, 2, 23, 24, 255, 256}[r.Intn(6)], axNodeChars), axStr(r, []int{0, 1, 23, 24, 255, 256}[r.Intn(6)], "abc/~ \t\x7f\x80\xff."))
	default:
		nodes := []string{"a", "n0", "node-1", "x.y_z", "A9", "none", "-", "_", "."}
		demux := []string{"", "app", "~group", "a/b/c", "x y", "\x80\xff", "/", "//", "none"}
		return axDtn(nodes[r.Intn(len(nodes))], demux[r.Intn(len(demux))])
	}
}

// endpoint IDs the encoder must refuse
func axInvalidEID(r *Rng) bpv7.EndpointID {
	switch r.Intn(6) {
	case 0:
		return axIpn(0, r.Pick(axB))
	case 1:
		return axIpn(r.Pick(axB), 0)
	case 2:
		return axDtn("", "x")
	case 3:
		return axDtn("no de", "x")
	case 4:
		return axDtn("n", "a\nb")
	default:
		return axDtn("n\n", "")
	}
}
func axAnyEID(r *Rng) bpv7.EndpointID {
	if r.Intn(12) == 0 {
		return axInvalidEID(r)
	}
	return axValidEID(r)
}

func axBid(r *Rng, frag bool) bpv7.BundleID {
	b := bpv7.BundleID{SourceNode: axAnyEID(r), Timestamp: bpv7.NewCreationTimestamp(bpv7.DtnTime(r.Pick(axB)), r.Pick(axB)), IsFragment: frag}
	if frag || r.Intn(10) == 0 { // a non-fragment with stale fragment fields: the encoder drops them silently
		b.FragmentOffset, b.TotalDataLength = r.Pick(axB), r.Pick(axB)
	}
	return b
}

func axItem(r *Rng) bpv7.BundleStatusItem {
	switch r.Intn(6) {
	case 0, 1:
		return bpv7.NewBundleStatusItem(r.Bool())
	case 2, 3:
		return bpv7.NewTimeReportingBundleStatusItem(bpv7.DtnTime(r.Pick(axB)))
	default: // every combination of the three fields, including those the encoder cannot express
		return bpv7.BundleStatusItem{Asserted: r.Bool(), Time: bpv7.DtnTime(r.Pick(axB)), StatusRequested: r.Bool()}
	}
}

func axSr(r *Rng, nitems int, reason uint64, frag bool) *bpv7.StatusReport {
	sr := &bpv7.StatusReport{ReportReason: bpv7.StatusReportReason(reason), RefBundle: axBid(r, frag), StatusInformation: []bpv7.BundleStatusItem{}}
	for i := 0; i < nitems; i++ {
		if r.Intn(4) == 0 {
			sr.StatusInformation = append(sr.StatusInformation, axItem(r))
		} else if r.Bool() {
			sr.StatusInformation = append(sr.StatusInformation, bpv7.NewBundleStatusItem(r.Bool()))
		} else {
			sr.StatusInformation = append(sr.StatusInformation, bpv7.NewTimeReportingBundleStatusItem(bpv7.DtnTime(r.Pick(axB))))
		}
	}
	return sr
}

var axClaTypes = []uint64{0, 1, 10, 20}

func axAnn(r *Rng) discovery.Announcement {
	t := axClaTypes[r.Intn(4)]
	if r.Intn(10) == 0 { // the encoder writes any type, the decoder refuses unknown ones
		t = r.Pick([]uint64{2, 9, 11, 19, 21, 255, 1 << 32})
	}
	return discovery.Announcement{Type: cla.CLAType(t), Endpoint: axAnyEID(r), Port: uint(r.Pick(axB))}
}

func axWamBundle(r *Rng) bpv7.Bundle {
	for try := 0; ; try++ {
		src, dst := axValidEID2(r), axValidEID(r)
		if try >= 20 { // the implementation refuses what should be valid: stay with the plainest endpoints
			src, dst = axIpn(1, 1), axIpn(2, 1)
		}
		bl := bpv7.Builder().CRC(bpv7.CRCType(r.Intn(3))).
			Source(src).Destination(dst).
			CreationTimestampEpoch().Lifetime("24h").BundleAgeBlock(uint64(r.Intn(1000)))
		if r.Bool() {
			bl = bl.HopCountBlock(r.Intn(200) + 1)
		}
		b, err := bl.PayloadBlock(r.Bytes(payloadSizes[r.Intn(len(payloadSizes))])).Build()
		if err == nil {
			return b
		}
		if try > 40 {
			panic(err)
		}
	}
}

// a source must not be dtn:none here (it would need further flags)
func axValidEID2(r *Rng) bpv7.EndpointID {
	for {
		if e := axValidEID(r); e != bpv7.DtnNone() {
			return e
		}
	}
}

func axWam(r *Rng, code uint64, n int) agent.VerifWam {
	w := agent.VerifWam{Code: code}
	switch code {
	case 0, 1, 3:
		w.Text = string(r.Bytes(n))
	case 2:
		w.Bundle = axWamBundle(r)
	default:
		w.Text = string(r.Bytes(n))
		w.Response = r.Bytes(axLens[r.Intn(len(axLens)-2)])
	}
	return w
}

// a random value of a random kind (small strings), for streams
func axRandVal(r *Rng) interface{} {
	switch r.Intn(10) {
	case 0:
		return bpv7.NewCreationTimestamp(bpv7.DtnTime(r.Pick(axB)), r.Pick(axB))
	case 1:
		return axValidEID(r)
	case 2:
		return axBid(r, r.Bool())
	case 3:
		return axItem(r)
	case 4:
		return axSr(r, r.Intn(6), uint64(r.Intn(12)), r.Bool())
	case 5, 6:
		return axAdm{axSr(r, 4, uint64(r.Intn(12)), r.Bool())}
	case 7:
		return axAnn(r)
	default:
		return axWam(r, uint64(r.Intn(5)), r.Intn(30))
	}
}

// ---------------------------------------------------------------------------------------------
// C17auxcbor

// rt: (kind value enc tail dec) - enc = (ok xbytes) | (err); dec = observation of decoding
// bytes ++ tail (absent when the encoder refused).
func axRtCase(o *Out, r *Rng, v interface{}) {
	kind := axKind(v)
	enc, err := axEnc(v)
	if err != nil {
		axCase(o, "rt", Sym(kind), axDump(v), L(Sym("err")), X(nil), L(Sym("none")))
		return
	}
	tail := r.Bytes([]int{0, 0, 1, 3}[r.Intn(4)])
	axCase(o, "rt", Sym(kind), axDump(v), L(Sym("ok"), X(enc)), X(tail), axDecObs(kind, cat(enc, tail)))
}

func axDecCase(o *Out, kind string, data []byte) {
	axCase(o, "dec", Sym(kind), X(data), axDecObs(kind, data))
}

func axStreamCase(o *Out, r *Rng, n int) {
	var vals []interface{}
	for i := 0; i < n; i++ {
		vals = append(vals, axRandVal(r))
	}
	axStreamVals(o, r, vals)
}

func axStreamVals(o *Out, r *Rng, cand []interface{}) {
	var vals []interface{}
	var stream []byte
	var ds []S
	for _, v := range cand {
		enc, err := axEnc(v)
		if err != nil {
			continue
		}
		vals = append(vals, v)
		ds = append(ds, L(Sym(axKind(v)), axDump(v), I(len(enc))))
		stream = append(stream, enc...)
	}
	tail := r.Bytes(r.Intn(3))
	stream = append(stream, tail...)
	// read everything back from ONE reader
	rd := bytes.NewReader(stream)
	var back []S
	for _, v := range vals {
		kind := axKind(v)
		before := rd.Len()
		obs := axStreamRead(kind, rd)
		back = append(back, L(obs, I(before-rd.Len())))
	}
	axCase(o, "stream", LL(ds), X(stream), LL(back), I(rd.Len()))
}

// axStreamRead decodes one message of the kind from the shared reader.
func axStreamRead(kind string, rd io.Reader) (obs S) {
	defer func() {
		if r := recover(); r != nil {
			obs = L(Sym("panic"), Str(fmt.Sprint(r)))
		}
	}()
	var v interface{}
	var err error
	switch kind {
	case "cts":
		var x bpv7.CreationTimestamp
		err = cboring.Unmarshal(&x, rd)
		v = x
	case "eid":
		var x bpv7.EndpointID
		err = cboring.Unmarshal(&x, rd)
		v = x
	case "bid0", "bid1":
		x := bpv7.BundleID{IsFragment: kind == "bid1"}
		err = cboring.Unmarshal(&x, rd)
		v = x
	case "sitem":
		var x bpv7.BundleStatusItem
		err = cboring.Unmarshal(&x, rd)
		v = x
	case "sreport":
		x := &bpv7.StatusReport{}
		err = cboring.Unmarshal(x, rd)
		v = x
	case "admrec":
		var ar bpv7.AdministrativeRecord
		ar, err = bpv7.GetAdministrativeRecordManager().ReadAdministrativeRecord(rd)
		if err == nil {
			v = axAdm{ar.(*bpv7.StatusReport)}
		}
	case "ann":
		var x discovery.Announcement
		err = cboring.Unmarshal(&x, rd)
		v = x
	case "wam":
		var x agent.VerifWam
		x, err = agent.VerifWamUnmarshal(rd)
		v = x
	default:
		panic("axStreamRead " + kind)
	}
	if err != nil {
		return L(Sym("err"))
	}
	return L(Sym("ok"), axDump(v))
}

// raw encodings with one named head replaced -------------------------------------------------

type axSeg struct {
	name  string // "" = literal bytes
	major byte
	val   uint64
	raw   []byte
}

func axH(name string, major byte, val uint64) axSeg { return axSeg{name: name, major: major, val: val} }
func axRaw(b []byte) axSeg                           { return axSeg{raw: b} }

func axRender(segs []axSeg, ov string, val uint64, width int) []byte {
	var out []byte
	for _, s := range segs {
		switch {
		case s.name == "":
			out = append(out, s.raw...)
		case s.name == ov:
			out = append(out, rawHead(s.major, val, width)...)
		default:
			out = append(out, rawHead(s.major, s.val, -1)...)
		}
	}
	return out
}
func axNames(segs []axSeg) (ns []string) {
	seen := map[string]bool{}
	for _, s := range segs {
		if s.name != "" && !seen[s.name] {
			seen[s.name] = true
			ns = append(ns, s.name)
		}
	}
	return
}

func axSegEidDtn(p, node, demux string) []axSeg {
	ssp := "//" + node + "/" + demux
	return []axSeg{axH(p+"eid.len", 0x80, 2), axH(p+"eid.scheme", 0, 1), axH(p+"eid.ssp", 0x60, uint64(len(ssp))), axRaw([]byte(ssp))}
}
func axSegEidIpn(p string, n, s uint64) []axSeg {
	return []axSeg{axH(p+"eid.len", 0x80, 2), axH(p+"eid.scheme", 0, 2), axH(p+"ipn.len", 0x80, 2), axH(p+"ipn.node", 0, n), axH(p+"ipn.service", 0, s)}
}
func axSegAdmrec(frag bool, ipn bool) []axSeg {
	l := uint64(4)
	if frag {
		l = 6
	}
	segs := []axSeg{axH("ar.len", 0x80, 2), axH("ar.type", 0, 1), axH("sr.len", 0x80, l), axH("sr.items", 0x80, 4),
		axH("it.len", 0x80, 2), axRaw([]byte{0xf5}), axH("it.time", 0, 1000),
		axH("it1.len", 0x80, 1), axRaw([]byte{0xf4}), axRaw([]byte{0x81, 0xf4, 0x81, 0xf4}),
		axH("sr.reason", 0, 1)}
	if ipn {
		segs = append(segs, axSegEidIpn("", 23, 42)...)
	} else {
		segs = append(segs, axSegEidDtn("", "node", "app")...)
	}
	segs = append(segs, axH("cts.len", 0x80, 2), axH("cts.time", 0, 5000), axH("cts.seq", 0, 7))
	if frag {
		segs = append(segs, axH("bid.off", 0, 10), axH("bid.total", 0, 100))
	}
	return segs
}
func axSegAnns() []axSeg {
	segs := []axSeg{axH("anns.len", 0x80, 2), axH("ann.len", 0x80, 3), axH("ann.type", 0, 10)}
	segs = append(segs, axSegEidDtn("", "peer", "")...)
	segs = append(segs, axH("ann.port", 0, 4556), axH("ann1.len", 0x80, 3), axH("ann1.type", 0, 0))
	segs = append(segs, axSegEidIpn("a1.", 5, 1)...)
	segs = append(segs, axH("ann1.port", 0, 4556))
	return segs
}
func axSegWam(code uint64) []axSeg {
	segs := []axSeg{axH("wam.len", 0x80, 2), axH("wam.code", 0, code)}
	switch code {
	case 0, 1, 3:
		segs = append(segs, axH("wam.text", 0x60, 5), axRaw([]byte("hello")))
	case 4:
		segs = append(segs, axH("resp.len", 0x80, 2), axH("resp.req", 0x60, 3), axRaw([]byte("req")), axH("resp.bytes", 0x40, 4), axRaw([]byte{1, 2, 3, 4}))
	}
	return segs
}

// axIsCount: the named head is an array / map count or a string length (not an integer field).
func axIsCount(segs []axSeg, name string) bool {
	for _, s := range segs {
		if s.name == name {
			return s.major>>5 >= 2 && s.major>>5 <= 5
		}
	}
	return false
}

var axCounts = []uint64{0, 1, 23, 24, 1 << 16, 1<<31 - 1, 1 << 31, 1<<32 - 1, 1 << 62, 1 << 63, 1<<64 - 1}

func genC17auxcbor(o *Out, r *Rng, thorough bool) {
	registerAllBlocks()
	if ReplayFile != "" {
		axReplay(o, r, false)
		return
	}
	mul := 1
	if thorough {
		mul = 20
	}
	// --- every format, every field over the boundary values ---
	for _, a := range axB {
		for _, b := range axB {
			axRtCase(o, r, bpv7.NewCreationTimestamp(bpv7.DtnTime(a), b))
			axRtCase(o, r, axIpn(a, b))
			axRtCase(o, r, bpv7.BundleID{SourceNode: axValidEID(r), Timestamp: bpv7.NewCreationTimestamp(bpv7.DtnTime(b), a), IsFragment: true, FragmentOffset: a, TotalDataLength: b})
		}
		axRtCase(o, r, bpv7.BundleID{SourceNode: axValidEID(r), Timestamp: bpv7.NewCreationTimestamp(bpv7.DtnTime(a), a)})
		for _, as := range []bool{false, true} {
			for _, rq := range []bool{false, true} {
				axRtCase(o, r, bpv7.BundleStatusItem{Asserted: as, Time: bpv7.DtnTime(a), StatusRequested: rq})
			}
		}
		axRtCase(o, r, discovery.Announcement{Type: cla.CLAType(axClaTypes[r.Intn(4)]), Endpoint: axValidEID(r), Port: uint(a)})
	}
	axRtCase(o, r, bpv7.DtnNone())
	for _, nl := range []int{1, 23, 24, 255, 256, 65535} {
		for _, dl := range []int{0, 1, 23, 24, 255, 256, 65535, 65536} {
			if (nl > 256 || dl > 256) && !(thorough || nl == 1 || dl == 0) {
				continue
			}
			axRtCase(o, r, axDtn(axStr(r, nl, axNodeChars), axStr(r, dl, "ab/~ .")))
		}
	}
	for i := 0; i < 40*mul; i++ {
		axRtCase(o, r, axAnyEID(r))
		axRtCase(o, r, axBid(r, r.Bool()))
	}
	// all reason codes 0..255 (+ boundary values) written by the real encoder and read back; both layouts
	for c := uint64(0); c < 256; c++ {
		axRtCase(o, r, axSr(r, 4, c, c%2 == 0))
		axRtCase(o, r, axAdm{axSr(r, 4, c, c%2 == 1)})
	}
	for _, c := range axB {
		axRtCase(o, r, axSr(r, 4, c, r.Bool()))
	}
	for _, n := range []int{0, 1, 2, 3, 4, 5, 23, 24, 255, 256} {
		axRtCase(o, r, axSr(r, n, uint64(r.Intn(12)), r.Bool()))
		axRtCase(o, r, axAdm{axSr(r, n, uint64(r.Intn(12)), r.Bool())})
	}
	for i := 0; i < 60*mul; i++ {
		axRtCase(o, r, axAdm{axSr(r, r.Intn(6), uint64(r.Intn(12)), r.Bool())})
	}
	// announcements: every CLA type code 0..255 through the real encoder, lists of 0..n
	for c := uint64(0); c < 256; c++ {
		axRtCase(o, r, discovery.Announcement{Type: cla.CLAType(c), Endpoint: axValidEID(r), Port: uint(r.Pick(axB))})
	}
	for _, n := range []int{0, 1, 2, 3, 23, 24, 255, 256} {
		var l axAnns = axAnns{}
		for i := 0; i < n; i++ {
			l = append(l, discovery.Announcement{Type: cla.CLAType(axClaTypes[r.Intn(4)]), Endpoint: axValidEID(r), Port: uint(r.Pick(axB))})
		}
		axRtCase(o, r, l)
	}
	for i := 0; i < 30*mul; i++ {
		var l axAnns = axAnns{}
		for j, n := 0, r.Intn(5); j < n; j++ {
			l = append(l, axAnn(r))
		}
		axRtCase(o, r, l)
	}
	// WebSocket-agent messages: five bodies, strings of boundary lengths
	for code := uint64(0); code < 5; code++ {
		for _, n := range axLens {
			if n > 256 && code == 2 {
				continue
			}
			axRtCase(o, r, axWam(r, code, n))
		}
	}
	for i := 0; i < 30*mul; i++ {
		axRtCase(o, r, axWam(r, uint64(r.Intn(5)), r.Intn(40)))
	}

	// --- code fields written raw: all byte values and the boundary values ---
	sweep := func(kind string, segs []axSeg, name string) {
		for c := uint64(0); c < 256; c++ {
			axDecCase(o, kind, axRender(segs, name, c, -1))
		}
		for _, c := range axB {
			axDecCase(o, kind, axRender(segs, name, c, -1))
			axDecCase(o, kind, axRender(segs, name, c, 8)) // non-minimal width
		}
	}
	sweep("admrec", axSegAdmrec(false, false), "sr.reason")
	sweep("admrec", axSegAdmrec(true, true), "sr.reason")
	sweep("admrec", axSegAdmrec(false, true), "ar.type")
	sweep("admrec", axSegAdmrec(false, true), "ar.len")
	sweep("admrec", axSegAdmrec(true, false), "sr.len")
	sweep("admrec", axSegAdmrec(false, true), "it.len")
	sweep("admrec", axSegAdmrec(false, true), "it1.len")
	sweep("admrec", axSegAdmrec(false, true), "eid.scheme")
	sweep("admrec", axSegAdmrec(false, true), "eid.len")
	sweep("admrec", axSegAdmrec(false, true), "ipn.len")
	sweep("admrec", axSegAdmrec(false, true), "cts.len")
	sweep("anns", axSegAnns(), "ann.type")
	sweep("anns", axSegAnns(), "ann1.type")
	sweep("anns", axSegAnns(), "ann.len")
	for code := uint64(0); code < 5; code++ {
		if code != 2 {
			sweep("wam", axSegWam(code), "wam.code")
		}
	}
	sweep("wam", axSegWam(0), "wam.len")
	sweep("wam", axSegWam(4), "resp.len")

	// --- truncation at every offset of valid encodings (prefixes: all counts stay small) ---
	trunc := func(kind string, enc []byte) {
		for i := 0; i <= len(enc); i++ {
			axDecCase(o, kind, enc[:i])
		}
	}
	trunc("admrec", axRender(axSegAdmrec(false, false), "", 0, -1))
	trunc("admrec", axRender(axSegAdmrec(true, true), "", 0, -1))
	trunc("anns", axRender(axSegAnns(), "", 0, -1))
	for code := uint64(0); code < 5; code++ {
		w := axWam(r, code, 5)
		enc, _ := axEnc(w)
		trunc("wam", enc)
	}
	for i := 0; i < 3*mul; i++ {
		v := axRandVal(r)
		if enc, err := axEnc(v); err == nil && len(enc) < 400 {
			trunc(axKind(v), enc)
		}
	}

	// --- streams of mixed messages read back from one reader ---
	for i := 0; i < 60*mul; i++ {
		axStreamCase(o, r, 1+r.Intn(8))
	}

	// --- endpoint IDs as URI text ---
	for _, u := range axUris(r, thorough) {
		axCase(o, "uri", Str(u), axUriObs(u))
	}
	for _, a := range axB[1:] {
		for _, b := range axB[1:] {
			axUriStruct(o, axIpn(a, b))
		}
	}
	for i := 0; i < 60*mul; i++ {
		axUriStruct(o, axValidEID(r))
	}
}

// uristruct: a valid structure printed and parsed back
func axUriStruct(o *Out, e bpv7.EndpointID) {
	s := e.String()
	axCase(o, "uristruct", axEidS(e), Str(s), axUriObs(s))
}

// axUriObs: (ok <eid> xprinted <reparse>) | (err) | (panic msg); reparse = (ok <eid>) | (err)
func axUriObs(u string) (obs S) {
	defer func() {
		if r := recover(); r != nil {
			obs = L(Sym("panic"), Str(fmt.Sprint(r)))
		}
	}()
	e, err := bpv7.NewEndpointID(u)
	if err != nil {
		return L(Sym("err"))
	}
	p := e.String()
	var re S
	if e2, err2 := bpv7.NewEndpointID(p); err2 != nil {
		re = L(Sym("err"))
	} else {
		re = L(Sym("ok"), axEidS(e2))
	}
	return L(Sym("ok"), axEidS(e), Str(p), re)
}

// the dtn / ipn grammars and near-misses
func axUris(r *Rng, thorough bool) []string {
	us := []string{
		"dtn:none", "dtn:none ", "dtn:none\n", "dtn:nonee", "dtn:non", "dtn:", "dtn", "dtn:/", "dtn://", "dtn:///", "dtn:////",
		"dtn://a", "dtn://a/", "dtn://a//", "dtn://a/b", "dtn://a/b/c", "dtn://a/\n", "dtn://a/b\nc", "dtn://a\n/b", "\ndtn://a/", "dtn://a/b\n",
		"dtn://none/", "dtn://none", "dtn:/a/", "dtn:a/", "dtn//a/", "dtn:://a/", "DTN://a/", "Dtn://a/", "dtn://A/", "dtn://a b/", "dtn://a:1/",
		"dtn://a@b/", "dtn://ü/", "dtn://a/ü", "dtn://\xff/", "dtn://a/\xff\xfe", "dtn://a/\x00", "dtn://\x00/", "dtn://-._/", "dtn://a-b.c_d/~x",
		"dtn://a/ ", " dtn://a/", "dtn://a/?q#f", "xdtn://a/", "dtn1://a/", "d:x", ":x", "", "a", "a:", "a:b", "ab:cd", "http://x/", "ipn", "ipn:", "ipn:.",
		"ipn:1", "ipn:1.", "ipn:.1", "ipn:1.1", "ipn:01.1", "ipn:1.01", "ipn:001.0001", "ipn:0.1", "ipn:1.0", "ipn:0.0", "ipn:00.1", "ipn:1.1.1", "ipn:1..1",
		"ipn:1,1", "ipn:1.1 ", "ipn: 1.1", "ipn:1.1\n", "ipn:1\n.1", "ipn:-1.1", "ipn:+1.1", "ipn:1.+1", "ipn:1e3.1", "ipn:0x1.1", "ipn:1_0.1", "ipn:a.1", "ipn:1.a",
		"IPN:1.1", "Ipn:1.1", "ipn:1.1a", "ipn://1.1", "ipn:١.1", "ipn:1.\xff", "ipn:１.1",
		"ipn:18446744073709551615.1", "ipn:1.18446744073709551615", "ipn:18446744073709551615.18446744073709551615",
		"ipn:18446744073709551616.1", "ipn:1.18446744073709551616", "ipn:18446744073709551617.1", "ipn:99999999999999999999.1",
		"ipn:100000000000000000000.1", "ipn:1.340282366920938463463374607431768211456", "ipn:000000000000000000000000000000018446744073709551615.1",
		"ipn:000000000000000000000000000000018446744073709551616.1", "ipn:9223372036854775807.9223372036854775808", "ipn:4294967295.4294967296",
		"ipn:0000000000000000000000000.1", "ipn:1.0000000000000000000000000",
	}
	for _, a := range axB {
		for _, b := range axB {
			us = append(us, fmt.Sprintf("ipn:%d.%d", a, b))
		}
	}
	n := 300
	if thorough {
		n = 6000
	}
	alpha := []string{"dtn:", "ipn:", "//", "/", ".", "a", "Z", "0", "1", "9", "-", "_", "~", " ", "\n", "\xff", ":", "none", "18446744073709551615", "18446744073709551616", "00"}
	for i := 0; i < n; i++ {
		switch r.Intn(4) {
		case 0: // random concatenation of grammar tokens
			var sb strings.Builder
			for j, k := 0, 1+r.Intn(6); j < k; j++ {
				sb.WriteString(alpha[r.Intn(len(alpha))])
			}
			us = append(us, sb.String())
		case 1: // a valid URI with one byte changed / removed / inserted
			us = append(us, string(mutate(r, []byte(axValidEID(r).String()))))
		case 2:
			us = append(us, axValidEID(r).String())
		default:
			us = append(us, "ipn:"+axStr(r, r.Intn(3), "0")+strconv.FormatUint(r.Pick(axB), 10)+"."+axStr(r, r.Intn(3), "0")+strconv.FormatUint(r.Pick(axB), 10))
		}
	}
	return us
}

// ---------------------------------------------------------------------------------------------
// C04auxcbor: untrusted inputs in a child process

type axJob struct {
	kind string
	data []byte
	// result
	obs   string // S-expression text
	alloc uint64
}

// child: reads "kind hex" lines from stdin, answers "(r <obs> <alloc>)" per line
func genC04auxcborChild(o *Out, r *Rng, thorough bool) {
	registerAllBlocks()
	lim := syscall.Rlimit{Cur: 6 << 30, Max: 6 << 30}
	_ = syscall.Setrlimit(syscall.RLIMIT_AS, &lim)
	runtime.GOMAXPROCS(2) // the decoders are sequential; keeps the stop-the-world of ReadMemStats / GC cheap
	out := bufio.NewWriter(os.Stdout)
	tick := make(chan struct{}, 1)
	go func() { // watchdog: a single job may take 10 s
		for {
			select {
			case <-tick:
			case <-time.After(10 * time.Second):
				fmt.Fprintln(os.Stdout, "(timeout)")
				os.Exit(3)
			}
		}
	}()
	// warm up everything that allocates once (regexps, managers, reflection caches)
	axChildRun("uri", []byte("dtn://warm/up"))
	axChildRun("uri", []byte("ipn:1.1"))
	for _, k := range []string{"admrec", "anns", "wam"} {
		axChildRun(k, []byte{0x82, 0x01, 0x00})
	}
	axChildRun("bfm", []byte(`{"destination":"dtn://d/","source":"dtn://s/","creation_timestamp_epoch":true,"lifetime":"1h","bundle_age_block":0,"payload_block":"x"}`))
	sc := bufio.NewScanner(os.Stdin)
	sc.Buffer(make([]byte, 1<<20), 64<<20)
	for sc.Scan() {
		f := strings.Fields(sc.Text())
		if len(f) != 2 {
			continue
		}
		data := atomX(sAtom(f[1]))
		select {
		case tick <- struct{}{}:
		default:
		}
		// TotalAlloc also sees what the runtime and library caches allocate now and then (sync.Pools
		// refilled after a GC, ...): an allocation caused by the input repeats, such noise does not -
		// a large reading is taken again and the smallest one counts.
		var obs func() S
		alloc := ^uint64(0)
		for try := 0; try < 3 && alloc > uint64(32<<10+len(data)<<10); try++ {
			var m0, m1 runtime.MemStats
			runtime.ReadMemStats(&m0)
			obs = axChildRun(f[0], data)
			runtime.ReadMemStats(&m1)
			if d := m1.TotalAlloc - m0.TotalAlloc; d < alloc {
				alloc = d
			}
		}
		fmt.Fprintf(out, "(r %s %d)\n", SString(obs()), alloc)
		out.Flush()
	}
}

// axChildRun decodes; the returned closure builds the observation afterwards (so that dumping is
// not part of the measured allocation).
func axChildRun(kind string, data []byte) (mk func() S) {
	defer func() {
		if r := recover(); r != nil {
			msg := fmt.Sprint(r)
			mk = func() S { return L(Sym("panic"), Str(msg)) }
		}
	}()
	switch kind {
	case "uri":
		e, err := bpv7.NewEndpointID(string(data))
		if err != nil {
			return func() S { return L(Sym("err")) }
		}
		return func() S { return L(Sym("ok"), axEidS(e), I(0)) }
	case "bfm":
		var m map[string]interface{}
		if err := json.Unmarshal(data, &m); err != nil {
			return func() S { return L(Sym("badjson")) }
		}
		b, err := bpv7.BuildFromMap(m)
		if err != nil {
			return func() S { return L(Sym("err")) }
		}
		// validity apart from the passing of time (a lifetime of 1 ms has expired by now)
		b.PrimaryBlock.Lifetime = 1 << 40
		return func() S { return L(Sym("ok"), L(Sym("valid"), B(b.CheckValid() == nil)), I(0)) }
	}
	v, c, err := axDec(kind, data)
	if err != nil {
		return func() S { return L(Sym("err")) }
	}
	return func() S { return L(Sym("ok"), axDump(v), I64(int64(c))) }
}

// axRunJobs feeds the jobs to child processes; a child that dies takes the job it was working on
// with it (class oom / crash / timeout) and the rest goes to a fresh child.
func axRunJobs(jobs []*axJob) {
	exe, err := os.Executable()
	if err != nil {
		panic(err)
	}
	next := 0
	for next < len(jobs) {
		cmd := exec.Command(exe, "-prop", "C04auxcborChild")
		var in bytes.Buffer
		for _, j := range jobs[next:] {
			fmt.Fprintf(&in, "%s x%x\n", j.kind, j.data)
		}
		cmd.Stdin = &in
		var so, se bytes.Buffer
		cmd.Stdout, cmd.Stderr = &so, &se
		_ = cmd.Run()
		done := 0
		timeout := false
		for _, line := range strings.Split(so.String(), "\n") {
			line = strings.TrimSpace(line)
			if line == "(timeout)" {
				timeout = true
				continue
			}
			if !strings.HasPrefix(line, "(r ") || next+done >= len(jobs) {
				continue
			}
			s, perr := ParseS(line)
			if perr != nil {
				continue
			}
			l := s.(sList)
			jobs[next+done].obs = SString(l[1])
			jobs[next+done].alloc = atomU(l[2])
			done++
		}
		next += done
		if next < len(jobs) { // the child died on jobs[next]
			j := jobs[next]
			switch {
			case timeout:
				j.obs = "(timeout)"
			case strings.Contains(se.String(), "out of memory") || strings.Contains(se.String(), "cannot allocate memory"):
				j.obs = "(oom)"
			default:
				j.obs = "(crash)"
			}
			next++
		}
	}
}

func axJSON(v interface{}) []byte {
	b, err := json.Marshal(v)
	if err != nil {
		panic(err)
	}
	return b
}

func genC04auxcbor(o *Out, r *Rng, thorough bool) {
	if ReplayFile != "" {
		axReplay(o, r, true)
		return
	}
	var jobs []*axJob
	add := func(kind string, data []byte) { jobs = append(jobs, &axJob{kind: kind, data: data}) }
	type tmpl struct {
		kind string
		segs []axSeg
	}
	tmpls := []tmpl{
		{"admrec", axSegAdmrec(false, false)}, {"admrec", axSegAdmrec(true, true)},
		{"anns", axSegAnns()},
		{"wam", axSegWam(0)}, {"wam", axSegWam(1)}, {"wam", axSegWam(3)}, {"wam", axSegWam(4)},
	}
	// the two minimal killers named in the design: a 12-byte administrative record, a 9-byte packet
	add("admrec", []byte{0x82, 0x01, 0x84, 0x9b, 0xff, 0xff, 0xff, 0xff, 0xff, 0xff, 0xff, 0xff})
	add("anns", []byte{0x9b, 0x00, 0x00, 0x00, 0x00, 0xff, 0xff, 0xff, 0xff})
	// every count / length / code position of otherwise valid messages over the boundary values
	for _, t := range tmpls {
		add(t.kind, axRender(t.segs, "", 0, -1))
		for _, name := range axNames(t.segs) {
			for _, c := range axCounts {
				add(t.kind, axRender(t.segs, name, c, -1))
				if thorough {
					add(t.kind, axRender(t.segs, name, c, 8))
				}
			}
			// multiplicative-overflow probes (c04probes.go) at the count / length positions
			if axIsCount(t.segs, name) {
				for _, c := range mulOverflowProbes(64, true) {
					add(t.kind, axRender(t.segs, name, c, -1))
				}
			}
		}
		// truncation at every offset, also with the count positions enlarged
		enc := axRender(t.segs, "", 0, -1)
		for i := 0; i <= len(enc); i++ {
			add(t.kind, enc[:i])
		}
	}
	// a WAM bundle message with its positions mutated
	wb, _ := axEnc(axWam(r, 2, 0))
	add("wam", wb)
	for i := 0; i <= len(wb); i += 1 + len(wb)/40 {
		add("wam", wb[:i])
	}
	// long item lists that really are there (allocation must follow the bytes, and may)
	for _, n := range []int{100, 1000, 20000} {
		segs := []axSeg{axH("ar.len", 0x80, 2), axH("ar.type", 0, 1), axH("sr.len", 0x80, 4), axH("sr.items", 0x80, uint64(n))}
		for i := 0; i < n; i++ {
			segs = append(segs, axRaw([]byte{0x81, 0xf4}))
		}
		segs = append(segs, axH("sr.reason", 0, 0))
		segs = append(segs, axSegEidIpn("", 1, 1)...)
		segs = append(segs, axRaw([]byte{0x82, 0x00, 0x00}))
		add("admrec", axRender(segs, "", 0, -1))
		add("admrec", axRender(segs, "sr.items", uint64(n)+1, -1))
		segs = []axSeg{axH("anns.len", 0x80, uint64(n))}
		for i := 0; i < n; i++ {
			segs = append(segs, axRaw(cat([]byte{0x83, 0x00}, rawIpn(1, 1), []byte{0x00})))
		}
		add("anns", axRender(segs, "", 0, -1))
		add("anns", axRender(segs, "anns.len", uint64(n)+1, -1))
	}
	// strings above and below the 1 MiB pre-allocation limit of cboring, present and absent
	for _, n := range []int{1 << 16, 1 << 20, 1<<20 + 1, 3 << 20, 1<<31 - 1, 1 << 31} {
		body := bytes.Repeat([]byte{'a'}, 1<<16)
		if n == 1<<16 || thorough && n < 1<<30 { // the bytes are really there
			full := bytes.Repeat([]byte{'a'}, n)
			add("wam", cat(rawArr(2), rawUint(0), rawHead(0x60, uint64(n), -1), full))
			add("wam", cat(rawArr(2), rawUint(4), rawArr(2), rawTstr("q"), rawHead(0x40, uint64(n), -1), full))
		}
		add("wam", cat(rawArr(2), rawUint(0), rawHead(0x60, uint64(n), -1), body))
		add("wam", cat(rawArr(2), rawUint(1), rawHead(0x60, uint64(n), -1), body[:7]))
		add("wam", cat(rawArr(2), rawUint(4), rawArr(2), rawTstr("q"), rawHead(0x40, uint64(n), -1), body[:7]))
		add("admrec", cat(rawArr(2), rawUint(1), rawArr(4), rawArr(0), rawUint(0), rawArr(2), rawUint(1), rawHead(0x60, uint64(n), -1), body[:9]))
	}
	// random mutations of valid messages
	nmut := 600
	if thorough {
		nmut = 20000
	}
	for i := 0; i < nmut; i++ {
		t := tmpls[r.Intn(len(tmpls))]
		enc := axRender(t.segs, "", 0, -1)
		if r.Intn(4) == 0 {
			v := axRandVal(r)
			if e, err := axEnc(v); err == nil {
				enc = e
				t.kind = axKind(v)
			}
		}
		m := mutate(r, enc)
		if r.Bool() {
			m = mutate(r, m)
		}
		add(t.kind, m)
	}
	// endpoint URIs
	for _, u := range axUris(r, thorough) {
		add("uri", []byte(u))
	}
	add("uri", []byte("dtn://"+strings.Repeat("a", 1<<16)+"/"+strings.Repeat("b", 1<<16)))
	add("uri", []byte("ipn:"+strings.Repeat("9", 1<<16)+".1"))
	add("uri", []byte("dtn://a/"+strings.Repeat("\n", 1<<12)))
	// REST build requests: all keys x all JSON value kinds (wrong types included), then combinations
	keys := []string{"destination", "source", "report_to", "creation_timestamp_epoch", "creation_timestamp_now", "creation_timestamp_time",
		"lifetime", "bundle_ctrl_flags", "canonical", "bundle_age_block", "hop_count_block", "payload_block", "previous_node_block", "unknown_method", ""}
	vals := []interface{}{nil, true, false, 0, 1, -1, 1.5, 1e300, -1e300, 64, 255, 256, 1 << 53, "", "x", "dtn://n/", "dtn:none", "ipn:1.1", "ipn:0.0", "10m", "-5s", "1000000h",
		"2000-01-01T00:00:00Z", []interface{}{}, []interface{}{1, "a"}, []interface{}{nil}, map[string]interface{}{}, map[string]interface{}{"a": 1}}
	for _, k := range keys {
		for _, v := range vals {
			add("bfm", axJSON(map[string]interface{}{k: v}))
		}
	}
	good := map[string]interface{}{"destination": "dtn://dst/", "source": "dtn://src/", "creation_timestamp_now": true, "lifetime": "24h", "payload_block": "hello world"}
	add("bfm", axJSON(good))
	for _, k := range keys {
		for _, v := range vals {
			m := map[string]interface{}{}
			for gk, gv := range good {
				m[gk] = gv
			}
			m[k] = v
			add("bfm", axJSON(m))
		}
	}
	nb := 200
	if thorough {
		nb = 5000
	}
	for i := 0; i < nb; i++ {
		m := map[string]interface{}{}
		for j, n := 0, r.Intn(7); j < n; j++ {
			m[keys[r.Intn(len(keys))]] = vals[r.Intn(len(vals))]
		}
		if r.Bool() {
			for gk, gv := range good {
				if _, ok := m[gk]; !ok && r.Intn(5) != 0 {
					m[gk] = gv
				}
			}
		}
		add("bfm", axJSON(m))
	}

	axRunJobs(jobs)
	for _, j := range jobs {
		s, err := ParseS(j.obs)
		if err != nil {
			panic(fmt.Sprintf("child answer %q: %v", j.obs, err))
		}
		axCase(o, "child", Sym(j.kind), X(j.data), s, U(j.alloc))
	}
}


// ---------------------------------------------------------------------------------------------
// replay: re-run the cases of a file (as written by a previous run) on the implementation

func axEidOfS(s S) bpv7.EndpointID {
	l := s.(sList)
	switch atomSym(l[0]) {
	case "none":
		return bpv7.DtnNone()
	case "dtn":
		return axDtn(string(atomX(l[1])), string(atomX(l[2])))
	case "ipn":
		return axIpn(atomU(l[1]), atomU(l[2]))
	}
	panic("eid dump")
}
func axBidOfS(s S) bpv7.BundleID {
	l := s.(sList)
	return bpv7.BundleID{SourceNode: axEidOfS(l[1]), Timestamp: bpv7.NewCreationTimestamp(bpv7.DtnTime(atomU(l[2])), atomU(l[3])),
		IsFragment: atomU(l[4]) != 0, FragmentOffset: atomU(l[5]), TotalDataLength: atomU(l[6])}
}
func axItemOfS(s S) bpv7.BundleStatusItem {
	l := s.(sList)
	return bpv7.BundleStatusItem{Asserted: atomU(l[1]) != 0, Time: bpv7.DtnTime(atomU(l[2])), StatusRequested: atomU(l[3]) != 0}
}
func axSrOfS(s S) *bpv7.StatusReport {
	l := s.(sList)
	sr := &bpv7.StatusReport{StatusInformation: []bpv7.BundleStatusItem{}, ReportReason: bpv7.StatusReportReason(atomU(l[2])), RefBundle: axBidOfS(l[3])}
	for _, i := range l[1].(sList) {
		sr.StatusInformation = append(sr.StatusInformation, axItemOfS(i))
	}
	return sr
}
func axAnnOfS(s S) discovery.Announcement {
	l := s.(sList)
	return discovery.Announcement{Type: cla.CLAType(atomU(l[1])), Endpoint: axEidOfS(l[2]), Port: uint(atomU(l[3]))}
}
func axValOfS(s S) interface{} {
	l := s.(sList)
	switch atomSym(l[0]) {
	case "cts":
		return bpv7.NewCreationTimestamp(bpv7.DtnTime(atomU(l[1])), atomU(l[2]))
	case "none", "dtn", "ipn":
		return axEidOfS(s)
	case "bid":
		return axBidOfS(s)
	case "it":
		return axItemOfS(s)
	case "sr":
		return axSrOfS(s)
	case "ar":
		return axAdm{axSrOfS(l[1])}
	case "ann":
		return axAnnOfS(s)
	case "anns":
		as := axAnns{}
		for _, a := range l[1].(sList) {
			as = append(as, axAnnOfS(a))
		}
		return as
	case "wam":
		w := agent.VerifWam{Code: atomU(l[1]), Text: string(atomX(l[2])), Response: atomX(l[3])}
		if w.Code == 2 {
			b, err := bpv7.ParseBundle(bytes.NewReader(atomX(l[4].(sList)[1])))
			if err != nil {
				panic(err)
			}
			w.Bundle = b
		}
		return w
	}
	panic("value dump")
}

// axReplay re-runs the cases of ReplayFile that belong to the generator (child = C04auxcbor).
func axReplay(o *Out, r *Rng, child bool) {
	data, err := os.ReadFile(ReplayFile)
	if err != nil {
		panic(err)
	}
	var jobs []*axJob
	for _, line := range strings.Split(string(data), "\n") {
		line = strings.TrimSpace(line)
		if !strings.HasPrefix(line, "(case ") {
			continue
		}
		s, perr := ParseS(line)
		if perr != nil {
			panic(perr)
		}
		l := s.(sList)
		kind, f := atomSym(l[2]), l[4:]
		switch {
		case kind == "child" && child:
			jobs = append(jobs, &axJob{kind: atomSym(f[0]), data: atomX(f[1])})
		case kind == "rt" && !child:
			axRtCase(o, r, axValOfS(f[1]))
		case kind == "dec" && !child:
			axDecCase(o, atomSym(f[0]), atomX(f[1]))
		case kind == "uri" && !child:
			u := string(atomX(f[0]))
			axCase(o, "uri", Str(u), axUriObs(u))
		case kind == "uristruct" && !child:
			axUriStruct(o, axEidOfS(f[0]))
		case kind == "stream" && !child:
			var vals []interface{}
			for _, v := range f[0].(sList) {
				vals = append(vals, axValOfS(v.(sList)[1]))
			}
			axStreamVals(o, r, vals)
		}
	}
	if child {
		axRunJobs(jobs)
		for _, j := range jobs {
			s, _ := ParseS(j.obs)
			axCase(o, "child", Sym(j.kind), X(j.data), s, U(j.alloc))
		}
	}
}

var _ = sort.Strings

func init() {
	register("C17auxcbor", genC17auxcbor)
	register("C04auxcbor", genC04auxcbor)
	register("C04auxcborChild", genC04auxcborChild)
}
