package main

// scf_sched: schedule control and fault injection for the store-carry-forward histories (C05).
//
// The model's event handlers are atomic: when a handler returns, everything the event caused has
// happened.  The Core forwards a bundle with one goroutine per peer and waits for them; a failed send is
// reported to the routing algorithm (ReportFailure: read the store item, take the peer out of the `sent`
// list, write the item back) from the sender's goroutine.  The histories marked (sched m) exercise the
// schedules in which such a report is slow:
//
//   the mock sender holds the report of its failed send back at the one point a sender is asked
//   something in the middle of the report (GetPeerEndpointID, between the report's read and its write),
//   until forward's closing store update of that bundle has read the item (m = 1: the report is then let
//   go and the update waits until the report's write has landed), or until the handler has returned
//   (m = 2), or - when forward does wait for its reports, as it has to - for scfHold, after which the
//   report goes on as if nothing had happened.
//
// The points of the forwarding goroutine are taken from the Core's own log (a logrus hook; the hook runs
// in the goroutine that logs): "Bundle was marked for contraindication" / "Failed to forward bundle to
// any CLA" = forward is past waiting for its senders, "Synchronizing BundleDescriptor" = a Sync has read
// the item and is about to write it.  A report that is still held when forward is past its barrier, or
// when the handler returns, has escaped the handler.
//
// (fault n): the n-th write of a bundle's part file from now on fails (the directory of the part files
// is moved away when Store.Push announces the write, and put back at the next message of the Core).

import (
	"bytes"
	"fmt"
	"os"
	"runtime"
	"strconv"
	"sync"
	"sync/atomic"
	"time"

	log "github.com/sirupsen/logrus"

	"github.com/dtn7/dtn7-go/pkg/bpv7"
)

const scfHold = 50 * time.Millisecond

// scfCLA is the mock convergence sender of the scf histories: a MockCLA with a schedule point in
// GetPeerEndpointID.
type scfCLA struct {
	*MockCLA
	h    *scfRunner
	peer int
}

func (m *scfCLA) GetPeerEndpointID() bpv7.EndpointID {
	if s := m.h.sched; s != nil {
		s.reportPoint()
	}
	return m.MockCLA.Peer
}

func scfGoid() uint64 {
	var buf [64]byte
	n := runtime.Stack(buf[:], false)
	f := bytes.Fields(buf[:n])
	if len(f) < 2 {
		return 0
	}
	id, _ := strconv.ParseUint(string(f[1]), 10, 64)
	return id
}

// a failed send of a tracked bundle in the current event, and where its failure report is
type scfReport struct {
	peer, idx int
	bid       string
	id        bpv7.BundleID
	state     int // 0 = send failed, 1 = report held at the report point, 2 = let go
	escaped   bool
}

type scfSched struct {
	h       *scfRunner
	mode    int
	mu      sync.Mutex
	byG     map[uint64]*scfReport
	reps    []*scfReport
	gates   map[string]chan struct{}
	open    map[string]bool
	points  map[string]bool
	// fault injection
	faultIn  int  // > 0: the faultIn-th part-file write from now fails
	faultOn  bool // the directory is moved away
	faultG   uint64
}

func (s *scfSched) beginEvent() {
	s.mu.Lock()
	s.byG = map[uint64]*scfReport{}
	s.reps = nil
	s.gates = map[string]chan struct{}{}
	s.open = map[string]bool{}
	s.points = map[string]bool{}
	s.mu.Unlock()
}

// called from MockCLA.Send (the sender's goroutine) when the scripted outcome is a failure
func (s *scfSched) noteFailed(peer, idx int, rec *SendRec) {
	if s.mode == 0 {
		return
	}
	r := &scfReport{peer: peer, idx: idx, bid: rec.ID, id: rec.Bndl.ID()}
	s.mu.Lock()
	s.byG[scfGoid()] = r
	s.reps = append(s.reps, r)
	if s.gates[r.bid] == nil {
		s.gates[r.bid] = make(chan struct{})
	}
	s.mu.Unlock()
}

// the report point: a sender is asked for its peer; if the asking goroutine is one whose send has just
// failed, this is its failure report
func (s *scfSched) reportPoint() {
	if s.mode == 0 {
		return
	}
	s.mu.Lock()
	r := s.byG[scfGoid()]
	if r == nil || r.state != 0 {
		s.mu.Unlock()
		return
	}
	if s.open[r.bid] {
		r.state = 2
		s.mu.Unlock()
		return
	}
	r.state = 1
	s.points["report-held"] = true
	gate := s.gates[r.bid]
	s.mu.Unlock()
	select {
	case <-gate:
	case <-time.After(scfHold):
	}
	s.mu.Lock()
	r.state = 2
	s.mu.Unlock()
}

func (s *scfSched) openGate(bid string) {
	if !s.open[bid] {
		s.open[bid] = true
		if g := s.gates[bid]; g != nil {
			close(g)
		}
	}
}

// have the writes of these reports reached the store?  (the failed peers are out of the sent list)
func (s *scfSched) landed(reps []*scfReport) bool {
	st := s.h.n.Core.VerifStore()
	for _, r := range reps {
		bi, err := st.QueryId(r.id)
		if err != nil {
			continue
		}
		eids, ok := bi.Properties[s.h.sentKey()].([]bpv7.EndpointID)
		if !ok {
			continue
		}
		for _, e := range eids {
			if scfNodeNum(e) == r.peer {
				return false
			}
		}
	}
	return true
}

func (s *scfSched) onLog(e *log.Entry) {
	s.onLogFault(e)
	if s.mode == 0 {
		return
	}
	v, ok := e.Data["bundle"]
	if !ok {
		return
	}
	switch e.Message {
	case "Bundle was marked for contraindication", "Failed to forward bundle to any CLA":
		bid := fmt.Sprint(v)
		s.mu.Lock()
		for _, r := range s.reps {
			if r.bid == bid {
				s.points["forward-barrier"] = true
				if r.state == 1 {
					r.escaped = true
				}
			}
		}
		s.mu.Unlock()
	case "Synchronizing BundleDescriptor":
		bid := fmt.Sprint(v)
		var held []*scfReport
		s.mu.Lock()
		for _, r := range s.reps {
			if r.bid == bid && r.state == 1 {
				r.escaped = true
				held = append(held, r)
			}
		}
		if len(held) > 0 && s.mode == 1 {
			s.points["report-inside-update"] = true
			s.openGate(bid)
		} else {
			held = nil
		}
		s.mu.Unlock()
		if len(held) > 0 {
			// this Sync has read the item; its write waits for the writes of the reports
			for end := time.Now().Add(2 * time.Second); time.Now().Before(end) && !s.landed(held); {
				time.Sleep(200 * time.Microsecond)
			}
		}
	}
}

// the handler has returned: reports still held have escaped it.  Returns them; the gates stay shut
// until release.
func (s *scfSched) handlerReturned() (esc []*scfReport, pts []string, any bool) {
	s.mu.Lock()
	defer s.mu.Unlock()
	for _, r := range s.reps {
		if r.state == 1 {
			r.escaped = true
		}
		if r.escaped {
			esc = append(esc, r)
		}
	}
	for _, p := range []string{"report-held", "forward-barrier", "report-inside-update", "part-file-write-failed"} {
		if s.points[p] {
			pts = append(pts, p)
		}
	}
	return esc, pts, len(s.reps) > 0 || len(pts) > 0
}

func (s *scfSched) release() {
	s.mu.Lock()
	for bid := range s.gates {
		s.openGate(bid)
	}
	s.mu.Unlock()
}

// ---------- fault injection: one failing part-file write ----------

func (s *scfSched) onLogFault(e *log.Entry) {
	s.mu.Lock()
	defer s.mu.Unlock()
	dir := s.h.n.Dir + "/bndl"
	if s.faultOn {
		// the next message of the same goroutine: the fault is over
		if scfGoid() == s.faultG {
			if err := os.Rename(dir+".away", dir); err == nil {
				s.faultOn = false
			}
		}
		return
	}
	if s.faultIn > 0 && e.Message == "Bundle ID is unknown, inserting BundleItem" {
		s.faultIn--
		if s.faultIn == 0 {
			if err := os.Rename(dir, dir+".away"); err == nil {
				s.faultOn = true
				s.faultG = scfGoid()
				s.points["part-file-write-failed"] = true
			}
		}
	}
}

func (s *scfSched) faultEnd() {
	s.mu.Lock()
	if s.faultOn {
		dir := s.h.n.Dir + "/bndl"
		if err := os.Rename(dir+".away", dir); err == nil {
			s.faultOn = false
		}
	}
	s.mu.Unlock()
}

// ---------- the hook ----------

type scfLogHook struct{}

var (
	scfHookOnce sync.Once
	scfActive   atomic.Value // *scfSched (nil pointer = none)
)

func (scfLogHook) Levels() []log.Level { return log.AllLevels }
func (scfLogHook) Fire(e *log.Entry) error {
	if s, _ := scfActive.Load().(*scfSched); s != nil {
		s.onLog(e)
	}
	return nil
}

func scfInstallHook() {
	scfHookOnce.Do(func() { log.AddHook(scfLogHook{}) })
}

// scfQuiesce waits (bounded) until none of the sender goroutines that forward started from the calling
// goroutine - the handlers run in the caller's goroutine - is left.  When the handlers are synchronous
// there is at most one that has done its work and is about to end; a Core whose failure reports outlive
// the handler must not be closed under them (the report would hit the closed store and take the harness
// process down with it).  No verdict is derived from this.
var scfQuiesceN, scfQuiesceNs int64
var scfStackBuf = sync.Pool{New: func() interface{} { b := make([]byte, 2<<20); return &b }}

func scfQuiesce() {
	t0 := time.Now()
	defer func() { atomic.AddInt64(&scfQuiesceN, 1); atomic.AddInt64(&scfQuiesceNs, int64(time.Since(t0))) }()
	mark := []byte(fmt.Sprintf("pkg/routing.(*Core).forward in goroutine %d\n", scfGoid()))
	bp := scfStackBuf.Get().(*[]byte)
	defer scfStackBuf.Put(bp)
	buf := *bp
	for end := time.Now().Add(5 * time.Second); time.Now().Before(end); {
		n := runtime.Stack(buf, true)
		if !bytes.Contains(buf[:n], mark) {
			return
		}
		time.Sleep(300 * time.Microsecond)
	}
}
