package main

import (
	"github.com/dtn7/dtn7-go/pkg/cla/bbc"
)

func fragS(f bbc.Fragment) S {
	return L(U(uint64(f.TransmissionID())), U(uint64(f.VerifIdentifier())), X(f.Payload))
}

// C17bbc: header packing for every (seq byte, flags), accessor values, Bytes/ParseFragment round
// trip, nextSequenceNumber / nextTransmissionId for all 256 bytes.  Exhaustive in the header.
func genC17bbc(o *Out, r *Rng, thorough bool) {
	for seq := 0; seq < 256; seq++ {
		for fl := 0; fl < 8; fl++ {
			st, en, fa := fl&4 != 0, fl&2 != 0, fl&1 != 0
			tid := byte(r.Intn(256))
			pl := r.Bytes(r.Intn(6))
			f := bbc.NewFragment(tid, byte(seq), st, en, fa, pl)
			bs := f.Bytes()
			g, err := bbc.ParseFragment(bs)
			rt := L(Sym("err"))
			if err == nil {
				rt = L(Sym("ok"), fragS(g))
			}
			o.Case("hdr", U(uint64(tid)), I(seq), B(st), B(en), B(fa), X(pl),
				// observed
				fragS(f), U(uint64(f.SequenceNumber())), B(f.StartBit()), B(f.EndBit()), B(f.FailBit()),
				X(bs), rt, fragS(f.ReportFailure()))
		}
	}
	for b := 0; b < 256; b++ {
		o.Case("next", I(b), U(uint64(bbc.VerifNextSequenceNumber(byte(b)))), U(uint64(bbc.VerifNextTransmissionId(byte(b)))))
	}
	// parse of arbitrary datagrams (incl. too short)
	n := 300
	if thorough {
		n = 5000
	}
	for i := 0; i < n; i++ {
		d := r.Bytes(r.Intn(8))
		g, err := bbc.ParseFragment(d)
		if err != nil {
			o.Case("parse", X(d), L(Sym("err")))
		} else {
			o.Case("parse", X(d), L(Sym("ok"), fragS(g), U(uint64(g.SequenceNumber())), B(g.StartBit()), B(g.EndBit()), B(g.FailBit())))
		}
	}
}

func init() { register("C17bbc", genC17bbc) }
