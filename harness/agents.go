package main

// C07 - local delivery reaches exactly the registered recipients, once, and nobody else.
//
// Generators run histories of register / unregister / fetch / connect / disconnect / deliver
// (WebSocket clients also: connect without registering, register late, twice, with an unparsable
// endpoint; deliveries also to dtn:none and to endpoints nobody registered)
// against a real routing.Core with a real MuxAgent (inside the AgentManager), real RestAgent
// (driven through its gorilla router with net/http/httptest), real WebSocketAgent (httptest
// server + real WebSocketAgentConnector clients), real PingAgent (behind a recording proxy) and
// recording mock agents, with two mock convergence senders as peers.  After every event the
// projected observables are written: hand-overs per recipient, sends to peers, status reports,
// store / constraint state of the bundle, REST fetch responses, REST clients / mailbox snapshot.
//
// Synchronisation never relies on sleeping: every channel on the delivery path is unbuffered and
// every agent handles its messages sequentially, so a few barrier messages pushed through the
// multiplexer behind a delivery guarantee that the delivery has been processed; WebSocket
// clients additionally get an in-band marker frame (a syscall response) behind the bundles.

import (
	"bytes"
	"encoding/hex"
	"encoding/json"
	"fmt"
	"net/http"
	"net/http/httptest"
	"sort"
	"strings"
	"sync"
	"sync/atomic"
	"time"

	"github.com/gorilla/mux"
	"github.com/gorilla/websocket"
	log "github.com/sirupsen/logrus"

	"github.com/dtn7/dtn7-go/pkg/agent"
	"github.com/dtn7/dtn7-go/pkg/bpv7"
	"github.com/dtn7/dtn7-go/pkg/routing"
)

const c07Wait = 10 * time.Second // deadline for things that must happen (never reached on working code)

// c07Late counts expired deadlines.  Working code never gets there; when the code under test is
// broken in a way that makes every case wait, the deadline shrinks so that the run still finishes
// (and reports the anomalies together with the property failures).
var c07Late int32

func c07Deadline() time.Duration {
	if atomic.LoadInt32(&c07Late) >= 2 {
		return 300 * time.Millisecond
	}
	return c07Wait
}
func c07Expired() { atomic.AddInt32(&c07Late, 1) }

const c07Altered = 9999 // bundle index reported for content that matches no bundle built by the harness

// ---- endpoint IDs as (node, demux) pairs ----
func c07Node(n int) string {
	if n == 7 {
		return "g7"
	}
	return fmt.Sprintf("n%d", n)
}
func c07Eid(n, d int) string {
	if n == 8 {
		return "dtn:none" // the null endpoint is the pair (8, 0)
	}
	dm := []string{"", "a", "b", "c", "d"}[d]
	return "dtn://" + c07Node(n) + "/" + dm
}

func c07EidPair(s string) (int, int) {
	if s == "dtn:none" {
		return 8, 0
	}
	for _, n := range []int{0, 1, 2, 3, 7} {
		for d := 0; d < 5; d++ {
			if c07Eid(n, d) == s {
				return n, d
			}
		}
	}
	return 99, 99
}

// ---- a barrier message: no recipients, so the multiplexer hands it to every child ----
type c07Barrier struct{}

func (c07Barrier) Recipients() []bpv7.EndpointID { return nil }

// ---- recording mock agent (unbuffered, sequential) ----
type c07Mock struct {
	eids []bpv7.EndpointID
	recv chan agent.Message
	send chan agent.Message
	mu   sync.Mutex
	got  []bpv7.Bundle
}

func newC07Mock(eids []bpv7.EndpointID) *c07Mock {
	a := &c07Mock{eids: eids, recv: make(chan agent.Message), send: make(chan agent.Message)}
	go func() {
		for msg := range a.recv {
			switch m := msg.(type) {
			case agent.BundleMessage:
				a.mu.Lock()
				a.got = append(a.got, m.Bundle)
				a.mu.Unlock()
			case agent.ShutdownMessage:
				close(a.send)
				return
			}
		}
	}()
	return a
}
func (a *c07Mock) Endpoints() []bpv7.EndpointID        { return a.eids }
func (a *c07Mock) MessageReceiver() chan agent.Message { return a.recv }
func (a *c07Mock) MessageSender() chan agent.Message   { return a.send }
func (a *c07Mock) take() []bpv7.Bundle {
	a.mu.Lock()
	defer a.mu.Unlock()
	r := a.got
	a.got = nil
	return r
}

// ---- proxy around a real PingAgent: records what the multiplexer hands to it, passes it on
// to the PingAgent and waits for the PingAgent's answer (one "pong" per bundle), in lockstep ----
type c07Ping struct {
	p     *agent.PingAgent
	recv  chan agent.Message
	send  chan agent.Message
	mu    sync.Mutex
	got   []bpv7.Bundle
	stuck string
}

func newC07Ping(e bpv7.EndpointID) *c07Ping {
	w := &c07Ping{p: agent.NewPing(e), recv: make(chan agent.Message), send: make(chan agent.Message)}
	go func() {
		for msg := range w.recv {
			switch m := msg.(type) {
			case agent.BundleMessage:
				select {
				case w.p.MessageReceiver() <- msg:
				case <-time.After(c07Deadline()):
					c07Expired()
					w.mu.Lock()
					w.stuck = "ping-does-not-receive"
					w.mu.Unlock()
					continue
				}
				select {
				case pm := <-w.p.MessageSender():
					ok := false
					if bm, isB := pm.(agent.BundleMessage); isB {
						ok = bm.Bundle.PrimaryBlock.Destination == m.Bundle.PrimaryBlock.ReportTo
					}
					w.mu.Lock()
					if ok {
						w.got = append(w.got, m.Bundle)
					} else {
						w.stuck = "ping-wrong-answer"
					}
					w.mu.Unlock()
				case <-time.After(c07Deadline()):
					c07Expired()
					w.mu.Lock()
					w.stuck = "ping-no-answer"
					w.mu.Unlock()
				}
			case agent.ShutdownMessage:
				w.p.MessageReceiver() <- msg
				close(w.send)
				return
			default:
				w.p.MessageReceiver() <- msg
			}
		}
	}()
	return w
}
func (w *c07Ping) Endpoints() []bpv7.EndpointID        { return w.p.Endpoints() }
func (w *c07Ping) MessageReceiver() chan agent.Message { return w.recv }
func (w *c07Ping) MessageSender() chan agent.Message   { return w.send }
func (w *c07Ping) take() ([]bpv7.Bundle, string) {
	w.mu.Lock()
	defer w.mu.Unlock()
	r := w.got
	w.got = nil
	return r, w.stuck
}

// ---- WebSocket client: a real connector plus a reader of its two incoming channels ----
type c07WsClient struct {
	wac     *agent.WebSocketAgentConnector
	eid     string
	mu      sync.Mutex
	got     []bpv7.Bundle
	markers int
	want    int
	closed  bool
}

func newC07WsClient(url, eid string) (*c07WsClient, error) {
	wac, err := agent.NewWebSocketAgentConnector(url, eid)
	if err != nil {
		return nil, err
	}
	c := &c07WsClient{wac: wac, eid: eid}
	bch, sch := wac.VerifChans()
	go func() {
		for {
			select {
			case b, ok := <-bch:
				if !ok {
					c.mu.Lock()
					c.closed = true
					c.mu.Unlock()
					return
				}
				c.mu.Lock()
				c.got = append(c.got, b)
				c.mu.Unlock()
			case _, ok := <-sch:
				if !ok {
					c.mu.Lock()
					c.closed = true
					c.mu.Unlock()
					return
				}
				c.mu.Lock()
				c.markers++
				c.mu.Unlock()
			}
		}
	}()
	return c, nil
}
func (c *c07WsClient) take() []bpv7.Bundle {
	c.mu.Lock()
	defer c.mu.Unlock()
	r := c.got
	c.got = nil
	return r
}

// ---- raw WebSocket client: dials and speaks the agent's protocol itself, so that it can stay
// connected without registering, register later, register twice or send an unparsable endpoint.
// Synchronisation: a WebSocket ping is answered by the server's connection reader with a pong on
// the same socket, behind every frame the server wrote before. ----
type c07RawWs struct {
	conn   *websocket.Conn
	wmu    sync.Mutex
	mu     sync.Mutex
	got    []bpv7.Bundle
	pongs  int
	pings  int
	closed bool
	status chan string
	eid    string // "" while not registered
}

func newC07RawWs(url string) (*c07RawWs, error) {
	conn, _, err := websocket.DefaultDialer.Dial(url, nil)
	if err != nil {
		return nil, err
	}
	c := &c07RawWs{conn: conn, status: make(chan string, 16)}
	conn.SetPongHandler(func(string) error {
		c.mu.Lock()
		c.pongs++
		c.mu.Unlock()
		return nil
	})
	go func() {
		for {
			mt, rd, err := conn.NextReader()
			if err != nil {
				c.mu.Lock()
				c.closed = true
				c.mu.Unlock()
				close(c.status)
				return
			}
			if mt != websocket.BinaryMessage {
				continue
			}
			v, err := agent.VerifWamUnmarshal(rd)
			if err != nil {
				continue
			}
			switch v.Code {
			case 0: // status
				select {
				case c.status <- v.Text:
				default:
				}
			case 2: // bundle
				c.mu.Lock()
				c.got = append(c.got, v.Bundle)
				c.mu.Unlock()
			}
		}
	}()
	return c, nil
}

func (c *c07RawWs) isClosed() bool {
	c.mu.Lock()
	defer c.mu.Unlock()
	return c.closed
}

// sync: one ping / pong round trip; false when the connection is gone or the deadline passes.
func (c *c07RawWs) sync() bool {
	if c.isClosed() {
		return false
	}
	c.mu.Lock()
	c.pings++
	want := c.pings
	c.mu.Unlock()
	c.wmu.Lock()
	err := c.conn.WriteControl(websocket.PingMessage, []byte("verif"), time.Now().Add(c07Deadline()))
	c.wmu.Unlock()
	if err != nil {
		return false
	}
	deadline := time.Now().Add(c07Deadline())
	for {
		c.mu.Lock()
		ok, closed := c.pongs >= want, c.closed
		c.mu.Unlock()
		if ok {
			return true
		}
		if closed {
			return false
		}
		if time.Now().After(deadline) {
			c07Expired()
			return false
		}
		time.Sleep(50 * time.Microsecond)
	}
}

// register sends a register message and returns the acknowledgement: "" = accepted.
func (c *c07RawWs) register(eid string) (string, bool) {
	c.wmu.Lock()
	wc, err := c.conn.NextWriter(websocket.BinaryMessage)
	if err == nil {
		err = agent.VerifWamMarshal(agent.VerifWam{Code: 1, Text: eid}, wc)
		if err == nil {
			err = wc.Close()
		}
	}
	c.wmu.Unlock()
	if err != nil {
		return "", false
	}
	select {
	case st, ok := <-c.status:
		return st, ok
	case <-time.After(c07Deadline()):
		c07Expired()
		return "", false
	}
}

func (c *c07RawWs) take() []bpv7.Bundle {
	c.mu.Lock()
	defer c.mu.Unlock()
	r := c.got
	c.got = nil
	return r
}

// ---- one agent registered at the Core ----
type c07Agent struct {
	label int
	kind  int // 0 mock, 1 ping, 2 rest, 3 ws
	mock  *c07Mock
	ping  *c07Ping
	rest  *agent.RestAgent
	rtr   *mux.Router
	uuid  map[int]string // uuid index -> uuid string
	uidx  map[string]int
	ws    *agent.WebSocketAgent
	wsSrv *httptest.Server
	wsCl  map[int]*c07WsClient
	wsRaw map[int]*c07RawWs
}

// ---- events ----
type c07Ev struct {
	Kind              string // reg rr ru rf wc wd wo wg wb dv
	A, X              int
	AKind             int
	Eids              [][2]int
	N, D              int // endpoint
	Bid, RN, RD, Want int // deliver
}

func (e c07Ev) S() S {
	switch e.Kind {
	case "reg":
		var es []S
		for _, p := range e.Eids {
			es = append(es, L(I(p[0]), I(p[1])))
		}
		return L(Sym("reg"), I(e.A), I(e.AKind), LL(es))
	case "rr":
		return L(Sym("rr"), I(e.A), I(e.X), I(e.N), I(e.D))
	case "ru", "rf", "wd":
		return L(Sym(e.Kind), I(e.A), I(e.X))
	case "wc", "wg":
		return L(Sym(e.Kind), I(e.A), I(e.X), I(e.N), I(e.D))
	case "wo", "wb":
		return L(Sym(e.Kind), I(e.A), I(e.X))
	case "dv":
		return L(Sym("dv"), I(e.Bid), I(e.N), I(e.D), I(e.RN), I(e.RD), I(e.Want))
	}
	panic("c07Ev kind")
}

// ---- environment of one history ----
type c07Env struct {
	n       *Node
	base    uint64
	bundles map[int]bpv7.Bundle
	byID    map[string]int
	byCbor  map[string]int
	byJSON  map[string]int
	agents  map[int]*c07Agent
	labels  []int
	lastN   int
	errs    []string
	repIDs  map[string]int
}

func newC07Env() *c07Env {
	e := &c07Env{bundles: map[int]bpv7.Bundle{}, byID: map[string]int{}, byCbor: map[string]int{}, byJSON: map[string]int{},
		agents: map[int]*c07Agent{}}
	e.n = NewNode("dtn://n0/", routing.RoutingConf{Algorithm: "epidemic"})
	e.n.PeerUp("p1", "dtn://n1/")
	e.n.PeerUp("p2", "dtn://n2/")
	e.base = uint64(bpv7.DtnTimeNow())
	e.lastN = e.n.LastSendN()
	return e
}

func (e *c07Env) err(s string) { e.errs = append(e.errs, s) }

func (e *c07Env) close() {
	// Shut the agents down one by one.  (A ShutdownMessage through the AgentManager's multiplexer
	// would close the multiplexer's sender channel, on which AgentManager.handler then spins.)
	for _, l := range e.labels {
		a := e.agents[l]
		var ch chan agent.Message
		switch a.kind {
		case 0:
			ch = a.mock.MessageReceiver()
		case 1:
			ch = a.ping.MessageReceiver()
		case 2:
			ch = a.rest.MessageReceiver()
		case 3:
			for _, c := range a.wsCl {
				c.wac.Close()
			}
			for _, c := range a.wsRaw {
				_ = c.conn.Close()
			}
			ch = a.ws.MessageReceiver()
		}
		select {
		case ch <- agent.ShutdownMessage{}:
		case <-time.After(c07Deadline()):
		}
		if a.kind == 3 {
			a.wsSrv.CloseClientConnections()
			a.wsSrv.Close()
		}
	}
	e.n.Destroy()
}

func (e *c07Env) bundle(ev c07Ev) bpv7.Bundle {
	if b, ok := e.bundles[ev.Bid]; ok {
		return b
	}
	var fl bpv7.BundleControlFlags
	if ev.Want != 0 {
		fl = bpv7.StatusRequestDelivery
	}
	// every second bundle carries extension blocks besides the payload (content as seen by each kind of client)
	var blks []bpv7.CanonicalBlock
	if ev.Bid%2 == 1 {
		blks = []bpv7.CanonicalBlock{bpv7.NewCanonicalBlock(0, 0, bpv7.NewHopCountBlock(64)),
			bpv7.NewCanonicalBlock(0, 0, bpv7.NewBundleAgeBlock(uint64(ev.Bid)))}
	}
	b := MkBundle(BOpt{Src: "dtn://n3/s", Dst: c07Eid(ev.N, ev.D), ReportTo: c07Eid(ev.RN, ev.RD), TS: e.base + uint64(ev.Bid),
		Life: 3600000, Flags: fl, Payload: []byte(fmt.Sprintf("payload-%d", ev.Bid)), CRC: bpv7.CRC32, Blocks: blks})
	e.bundles[ev.Bid] = b
	e.byID[b.ID().String()] = ev.Bid
	e.byCbor[hex.EncodeToString(BundleBytes(b))] = ev.Bid
	js, _ := json.Marshal(b)
	e.byJSON[string(js)] = ev.Bid
	return b
}

func (e *c07Env) bidOf(b bpv7.Bundle) int {
	if i, ok := e.byCbor[hex.EncodeToString(BundleBytes(b))]; ok {
		return i
	}
	return c07Altered
}

// barrier pushes k barrier messages through the AgentManager's multiplexer.
func (e *c07Env) barrier(k int) bool {
	m := e.n.Core.VerifAgentMux()
	for i := 0; i < k; i++ {
		select {
		case m.MessageReceiver() <- c07Barrier{}:
		case <-time.After(c07Deadline()):
			c07Expired()
			e.err("barrier-timeout")
			return false
		}
	}
	return true
}

// wsSync sends one marker per distinct endpoint of the connected WebSocket clients and waits
// until every client has seen its marker (which travels behind the bundles on the same socket).
func (e *c07Env) wsSync() {
	var cls []*c07WsClient
	for _, l := range e.labels {
		a := e.agents[l]
		if a.kind != 3 {
			continue
		}
		seen := map[string]bool{}
		var eids []string
		for _, c := range a.wsCl {
			cls = append(cls, c)
			c.want++
			if !seen[c.eid] {
				seen[c.eid] = true
				eids = append(eids, c.eid)
			}
		}
		sort.Strings(eids)
		// behind the barriers the agent has taken every earlier message; the marker follows them
		for _, s := range eids {
			select {
			case a.ws.MessageReceiver() <- agent.SyscallResponseMessage{Request: "verif", Response: []byte{1}, Recipient: MustEID(s)}:
			case <-time.After(c07Deadline()):
				c07Expired()
				e.err("marker-send-timeout")
				return
			}
		}
	}
	// raw clients (registered or not): a ping / pong round trip behind the bundles
	for _, l := range e.labels {
		a := e.agents[l]
		if a.kind != 3 {
			continue
		}
		var cs []int
		for c := range a.wsRaw {
			cs = append(cs, c)
		}
		sort.Ints(cs)
		for _, c := range cs {
			if rc := a.wsRaw[c]; !rc.isClosed() && !rc.sync() && !rc.isClosed() {
				e.err("ws-pong-timeout")
				return
			}
		}
	}
	deadline := time.Now().Add(c07Deadline())
	for _, c := range cls {
		for {
			c.mu.Lock()
			ok := c.markers >= c.want
			c.mu.Unlock()
			if ok {
				break
			}
			if time.Now().After(deadline) {
				c07Expired()
				e.err("ws-marker-timeout")
				return
			}
			time.Sleep(50 * time.Microsecond)
		}
	}
}

func c07Post(r *mux.Router, path string, body interface{}) []byte {
	buf, _ := json.Marshal(body)
	req := httptest.NewRequest(http.MethodPost, path, bytes.NewReader(buf))
	rec := httptest.NewRecorder()
	r.ServeHTTP(rec, req)
	return rec.Body.Bytes()
}

// fetchIDs decodes a /fetch response into bundle indices (exact JSON match of each element).
// c07JSONBlocksMatch reads the fetched JSON without the bundle's own MarshalJSON: the canonical blocks listed
// must be the bundle's blocks - number, type code, flags - in order (the look-up by the JSON text alone would
// compare the JSON encoder with itself).
func c07JSONBlocksMatch(raw json.RawMessage, b bpv7.Bundle) bool {
	var v struct {
		PrimaryBlock struct {
			Destination string `json:"destination"`
			Source      string `json:"source"`
		} `json:"primaryBlock"`
		CanonicalBlocks []struct {
			BlockNumber   uint64          `json:"blockNumber"`
			BlockTypeCode uint64          `json:"blockTypeCode"`
			ControlFlags  json.RawMessage `json:"blockControlFlags"`
		} `json:"canonicalBlocks"`
	}
	if err := json.Unmarshal(raw, &v); err != nil {
		return false
	}
	if len(v.CanonicalBlocks) != len(b.CanonicalBlocks) {
		return false
	}
	for i, cb := range b.CanonicalBlocks {
		if v.CanonicalBlocks[i].BlockNumber != cb.BlockNumber || v.CanonicalBlocks[i].BlockTypeCode != cb.Value.BlockTypeCode() {
			return false
		}
	}
	return true
}

func (e *c07Env) fetchIDs(resp []byte) ([]int, string) {
	var fr struct {
		Error   string            `json:"error"`
		Bundles []json.RawMessage `json:"bundles"`
	}
	if err := json.Unmarshal(resp, &fr); err != nil {
		return nil, "bad-json"
	}
	var ids []int
	for _, raw := range fr.Bundles {
		var cb bytes.Buffer
		_ = json.Compact(&cb, raw)
		if i, ok := e.byJSON[cb.String()]; ok && c07JSONBlocksMatch(raw, e.bundles[i]) {
			ids = append(ids, i)
		} else {
			ids = append(ids, c07Altered)
		}
	}
	return ids, fr.Error
}

// do executes one event on the implementation; returns the event-specific observation items.
func (e *c07Env) do(ev c07Ev) []S {
	var obs []S
	switch ev.Kind {
	case "reg":
		a := &c07Agent{label: ev.A, kind: ev.AKind}
		switch ev.AKind {
		case 0:
			var es []bpv7.EndpointID
			for _, p := range ev.Eids {
				es = append(es, MustEID(c07Eid(p[0], p[1])))
			}
			a.mock = newC07Mock(es)
			e.n.Core.RegisterApplicationAgent(a.mock)
		case 1:
			a.ping = newC07Ping(MustEID(c07Eid(ev.Eids[0][0], ev.Eids[0][1])))
			e.n.Core.RegisterApplicationAgent(a.ping)
		case 2:
			a.rtr = mux.NewRouter()
			a.rest = agent.NewRestAgent(a.rtr.PathPrefix("/rest").Subrouter())
			a.uuid = map[int]string{}
			a.uidx = map[string]int{}
			e.n.Core.RegisterApplicationAgent(a.rest)
		case 3:
			a.ws = agent.NewWebSocketAgent()
			hm := http.NewServeMux()
			hm.HandleFunc("/ws", a.ws.ServeHTTP)
			a.wsSrv = httptest.NewServer(hm)
			a.wsCl = map[int]*c07WsClient{}
			a.wsRaw = map[int]*c07RawWs{}
			e.n.Core.RegisterApplicationAgent(a.ws)
		}
		e.agents[ev.A] = a
		e.labels = append(e.labels, ev.A)
	case "rr":
		a := e.agents[ev.A]
		var rr agent.RestRegisterResponse
		_ = json.Unmarshal(c07Post(a.rtr, "/rest/register", agent.RestRegisterRequest{EndpointId: c07Eid(ev.N, ev.D)}), &rr)
		if rr.Error != "" || rr.UUID == "" {
			e.err("register-failed")
		} else if _, dup := a.uidx[rr.UUID]; dup {
			e.err("uuid-reused")
		} else {
			a.uuid[ev.X] = rr.UUID
			a.uidx[rr.UUID] = ev.X
		}
	case "ru":
		a := e.agents[ev.A]
		u, ok := a.uuid[ev.X]
		if !ok {
			u = fmt.Sprintf("unknown-%d", ev.X)
		}
		c07Post(a.rtr, "/rest/unregister", agent.RestUnregisterRequest{UUID: u})
	case "rf":
		a := e.agents[ev.A]
		u, ok := a.uuid[ev.X]
		if !ok {
			u = fmt.Sprintf("unknown-%d", ev.X)
		}
		ids, er := e.fetchIDs(c07Post(a.rtr, "/rest/fetch", agent.RestFetchRequest{UUID: u}))
		if er != "" {
			e.err("fetch-error")
		}
		var is []S
		for _, i := range ids {
			is = append(is, I(i))
		}
		obs = append(obs, L(Sym("f"), LL(is)))
	case "wc":
		a := e.agents[ev.A]
		url := "ws" + strings.TrimPrefix(a.wsSrv.URL, "http") + "/ws"
		c, err := newC07WsClient(url, c07Eid(ev.N, ev.D))
		if err != nil {
			e.err("ws-connect-failed")
		} else {
			a.wsCl[ev.X] = c
		}
	case "wo":
		a := e.agents[ev.A]
		url := "ws" + strings.TrimPrefix(a.wsSrv.URL, "http") + "/ws"
		c, err := newC07RawWs(url)
		if err != nil {
			e.err("ws-connect-failed")
		} else {
			a.wsRaw[ev.X] = c
			// the agent reads from the connection only after it has put the client into its multiplexer
			if !c.sync() {
				e.err("ws-dial-sync-failed")
			}
		}
	case "wg", "wb":
		a := e.agents[ev.A]
		if c, ok := a.wsRaw[ev.X]; ok && !c.isClosed() {
			eid := "dtn:/~/no endpoint/" // does not parse
			if ev.Kind == "wg" {
				eid = c07Eid(ev.N, ev.D)
			}
			before := a.ws.VerifClientCount()
			st, ok := c.register(eid)
			switch {
			case !ok:
				e.err("ws-no-acknowledgement")
			case st == "":
				obs = append(obs, L(Sym("ack"), Sym("ok")))
				c.eid = eid
			default:
				// a refused registration ends the connection: wait until the client has left the multiplexer
				obs = append(obs, L(Sym("ack"), Sym("err")))
				deadline := time.Now().Add(c07Deadline())
				for a.ws.VerifClientCount() >= before {
					if time.Now().After(deadline) {
						c07Expired()
						e.err("ws-refused-client-stays")
						break
					}
					time.Sleep(50 * time.Microsecond)
				}
			}
		} else {
			e.err("ws-raw-client-missing")
		}
	case "wd":
		a := e.agents[ev.A]
		before := a.ws.VerifClientCount()
		closedOne := false
		if c, ok := a.wsCl[ev.X]; ok {
			c.wac.Close()
			delete(a.wsCl, ev.X)
			closedOne = true
		} else if c, ok := a.wsRaw[ev.X]; ok && !c.isClosed() {
			_ = c.conn.Close()
			closedOne = true
		}
		if closedOne {
			deadline := time.Now().Add(c07Deadline())
			for a.ws.VerifClientCount() >= before {
				if time.Now().After(deadline) {
					c07Expired()
					e.err("ws-disconnect-timeout")
					break
				}
				time.Sleep(50 * time.Microsecond)
			}
		}
	case "dv":
		b := e.bundle(ev)
		pre := e.n.Knows(b.ID())
		e.n.Receive(b, "dtn://n0/")
		if e.barrier(4) {
			e.wsSync()
		}
		known := e.n.Knows(b.ID())
		lep := false
		if known {
			if bi, err := e.n.Core.VerifStore().QueryId(b.ID()); err == nil {
				if v, ok := bi.Properties["bundlepack/constraints"]; ok {
					if cm, ok := v.(map[routing.Constraint]bool); ok {
						lep = cm[routing.LocalEndpoint]
					}
				}
			}
		}
		obs = append(obs, L(Sym("st"), B(pre), B(known), B(lep)))
	}
	return obs
}

// collect gathers what happened since the previous event: hand-overs, sends, reports, snapshots.
func (e *c07Env) collect() []S {
	var obs []S
	var labels []int
	labels = append(labels, e.labels...)
	sort.Ints(labels)
	var mbS, clS, wsS []S
	for _, l := range labels {
		a := e.agents[l]
		switch a.kind {
		case 0:
			for _, b := range a.mock.take() {
				obs = append(obs, L(Sym("h"), I(0), I(l), I(0), I(e.bidOf(b))))
			}
		case 1:
			got, stuck := a.ping.take()
			for _, b := range got {
				obs = append(obs, L(Sym("h"), I(1), I(l), I(0), I(e.bidOf(b))))
			}
			if stuck != "" {
				e.err(stuck)
			}
		case 2:
			cl := a.rest.VerifClients()
			var us []int
			for u, eid := range cl {
				i, ok := a.uidx[u]
				if !ok {
					i = c07Altered
				}
				us = append(us, i)
				_ = eid
			}
			sort.Ints(us)
			for _, i := range us {
				n, d := c07EidPair(cl[a.uuid[i]].String())
				clS = append(clS, L(I(l), I(i), I(n), I(d)))
			}
			mb := a.rest.VerifMailbox()
			us = nil
			for u := range mb {
				i, ok := a.uidx[u]
				if !ok {
					i = c07Altered
				}
				us = append(us, i)
			}
			sort.Ints(us)
			for _, i := range us {
				var ids []S
				for _, b := range mb[a.uuid[i]] {
					ids = append(ids, I(e.bidOf(b)))
				}
				mbS = append(mbS, L(I(l), I(i), LL(ids)))
			}
		case 3:
			var cs []int
			for c := range a.wsCl {
				cs = append(cs, c)
			}
			for c := range a.wsRaw {
				cs = append(cs, c)
			}
			sort.Ints(cs)
			for _, c := range cs {
				var got []bpv7.Bundle
				if wc, ok := a.wsCl[c]; ok {
					got = wc.take()
				} else {
					got = a.wsRaw[c].take()
				}
				for _, b := range got {
					obs = append(obs, L(Sym("h"), I(3), I(l), I(c), I(e.bidOf(b))))
				}
			}
			wsS = append(wsS, L(I(l), I(a.ws.VerifClientCount())))
		}
	}
	for _, s := range e.n.SendsSince(e.lastN) {
		p := 0
		if s.Peer == "p1" {
			p = 1
		} else if s.Peer == "p2" {
			p = 2
		}
		if s.Bndl.IsAdministrativeRecord() {
			ref, what := -1, "other"
			if pb, err := s.Bndl.PayloadBlock(); err == nil {
				if ar, err := bpv7.NewAdministrativeRecordFromCbor(pb.Value.(*bpv7.PayloadBlock).Data()); err == nil {
					if sr, ok := ar.(*bpv7.StatusReport); ok {
						if i, ok := e.byID[sr.RefBundle.String()]; ok {
							ref = i
						}
						for _, sip := range sr.StatusInformations() {
							if sip == bpv7.DeliveredBundle {
								what = "delivered"
							}
						}
					}
				}
			}
			if what == "delivered" && ref >= 0 {
				if e.repIDs == nil {
					e.repIDs = map[string]int{}
				}
				rid, ok := e.repIDs[s.ID]
				if !ok {
					rid = len(e.repIDs)
					e.repIDs[s.ID] = rid
				}
				obs = append(obs, L(Sym("r"), I(ref), I(p), I(rid)))
			} else {
				obs = append(obs, L(Sym("ar"), I(ref), I(p)))
			}
		} else if i, ok := e.byID[s.ID]; ok {
			obs = append(obs, L(Sym("s"), I(p), I(i)))
		} else {
			obs = append(obs, L(Sym("s"), I(p), I(c07Altered)))
		}
		e.lastN = s.N
	}
	obs = append(obs, L(Sym("cl"), LL(clS)), L(Sym("mb"), LL(mbS)), L(Sym("wsn"), LL(wsS)))
	for _, s := range e.errs {
		obs = append(obs, L(Sym("err"), Sym(s)))
	}
	e.errs = nil
	return obs
}

// runHistory executes a history and writes one case.
func c07RunHistory(o *Out, tag string, evs []c07Ev) {
	e := newC07Env()
	var fields []S
	fields = append(fields, Sym(tag))
	for _, ev := range evs {
		obs := e.do(ev)
		obs = append(obs, e.collect()...)
		fields = append(fields, L(ev.S(), LL(obs)))
	}
	e.close()
	o.Case("hist", fields...)
}

// ---------------------------------------------------------------------------------------------
// history generation

type c07Gen struct {
	r       *Rng
	evs     []c07Ev
	nextA   int
	nextU   int
	nextC   int
	nextB   int
	rests   []int
	wss     []int
	uuids   map[int][]int // per REST agent: uuid indices ever handed out
	clients map[int][]int // per WS agent: connected client labels
	pool    [][2]int
	used    [][2]int // endpoints somebody registered for
	bids    []c07Ev  // deliver events so far (for re-delivery)
	ws      bool
	raws    map[int][]int // per WS agent: raw client labels still connected
	rawReg  map[int]bool  // raw client label -> has registered an endpoint
}

func newC07Gen(r *Rng, ws bool) *c07Gen {
	return &c07Gen{r: r, uuids: map[int][]int{}, clients: map[int][]int{}, ws: ws, raws: map[int][]int{}, rawReg: map[int]bool{},
		pool: [][2]int{{0, 1}, {0, 2}, {0, 3}, {7, 1}, {7, 2}, {7, 3}}}
}
func (g *c07Gen) eid() [2]int {
	p := g.pool[g.r.Intn(len(g.pool))]
	return p
}

// eidN: an endpoint to register for; now and then the null endpoint.
func (g *c07Gen) eidN() [2]int {
	if g.r.Intn(10) == 0 {
		return [2]int{8, 0}
	}
	return g.eid()
}
func (g *c07Gen) dropRaw(a, c int) {
	rs := g.raws[a]
	for i, x := range rs {
		if x == c {
			g.raws[a] = append(append([]int(nil), rs[:i]...), rs[i+1:]...)
			return
		}
	}
}
func (g *c07Gen) regAgent(kind int) {
	ev := c07Ev{Kind: "reg", A: g.nextA, AKind: kind}
	switch kind {
	case 0:
		k := 1 + g.r.Intn(3)
		for i := 0; i < k; i++ {
			p := g.eidN()
			ev.Eids = append(ev.Eids, p)
			g.used = append(g.used, p)
		}
	case 1:
		p := g.eid()
		ev.Eids = [][2]int{p}
		g.used = append(g.used, p)
	case 2:
		g.rests = append(g.rests, g.nextA)
	case 3:
		g.wss = append(g.wss, g.nextA)
	}
	g.nextA++
	g.evs = append(g.evs, ev)
}
func (g *c07Gen) deliver() {
	if len(g.bids) > 0 && g.r.Intn(8) == 0 {
		// the same bundle arrives again
		g.evs = append(g.evs, g.bids[g.r.Intn(len(g.bids))])
		return
	}
	var p [2]int
	if g.r.Intn(7) == 0 {
		p = [2]int{8, 0} // dtn:none
	} else if len(g.used) > 0 && g.r.Intn(5) != 0 {
		p = g.used[g.r.Intn(len(g.used))]
	} else {
		p = g.eid()
	}
	ev := c07Ev{Kind: "dv", Bid: g.nextB, N: p[0], D: p[1], RN: 1, RD: 0, Want: 0}
	if g.r.Intn(2) == 0 {
		ev.Want = 1
	}
	switch g.r.Intn(7) {
	case 0:
		ev.RN, ev.RD = 0, 1 // report-to is an endpoint of this node
	case 1:
		ev.RN, ev.RD = 7, 1 // report-to may be registered by an agent
	case 2:
		ev.RN, ev.RD = 8, 0 // report-to is dtn:none
	}
	g.nextB++
	g.bids = append(g.bids, ev)
	g.evs = append(g.evs, ev)
}
func (g *c07Gen) op() {
	for {
		switch g.r.Intn(16) {
		case 0, 1:
			if len(g.rests) == 0 {
				continue
			}
			a := g.rests[g.r.Intn(len(g.rests))]
			p := g.eidN()
			if len(g.used) > 0 && g.r.Intn(3) == 0 {
				p = g.used[g.r.Intn(len(g.used))]
			}
			g.evs = append(g.evs, c07Ev{Kind: "rr", A: a, X: g.nextU, N: p[0], D: p[1]})
			g.uuids[a] = append(g.uuids[a], g.nextU)
			g.used = append(g.used, p)
			g.nextU++
		case 2:
			if len(g.rests) == 0 {
				continue
			}
			a := g.rests[g.r.Intn(len(g.rests))]
			u := 900 + g.r.Intn(3) // never registered
			if us := g.uuids[a]; len(us) > 0 && g.r.Intn(6) != 0 {
				u = us[g.r.Intn(len(us))]
			}
			g.evs = append(g.evs, c07Ev{Kind: "ru", A: a, X: u})
		case 3, 4:
			if len(g.rests) == 0 {
				continue
			}
			a := g.rests[g.r.Intn(len(g.rests))]
			u := 900 + g.r.Intn(3)
			if us := g.uuids[a]; len(us) > 0 && g.r.Intn(8) != 0 {
				u = us[g.r.Intn(len(us))]
			}
			g.evs = append(g.evs, c07Ev{Kind: "rf", A: a, X: u})
		case 5:
			if len(g.wss) == 0 {
				continue
			}
			a := g.wss[g.r.Intn(len(g.wss))]
			p := g.eidN()
			if len(g.used) > 0 && g.r.Intn(3) == 0 {
				p = g.used[g.r.Intn(len(g.used))]
			}
			g.evs = append(g.evs, c07Ev{Kind: "wc", A: a, X: g.nextC, N: p[0], D: p[1]})
			g.clients[a] = append(g.clients[a], g.nextC)
			g.used = append(g.used, p)
			g.nextC++
		case 6:
			if len(g.wss) == 0 {
				continue
			}
			a := g.wss[g.r.Intn(len(g.wss))]
			cs := g.clients[a]
			if len(cs) == 0 {
				continue
			}
			i := g.r.Intn(len(cs))
			g.evs = append(g.evs, c07Ev{Kind: "wd", A: a, X: cs[i]})
			g.dropRaw(a, cs[i])
			g.clients[a] = append(append([]int(nil), cs[:i]...), cs[i+1:]...)
		case 7:
			if g.nextA >= 8 {
				continue
			}
			k := g.r.Intn(4)
			if k == 3 && !g.ws {
				k = 2
			}
			g.regAgent(k)
		case 12, 13:
			// a WebSocket client connects and does not register
			if len(g.wss) == 0 {
				continue
			}
			a := g.wss[g.r.Intn(len(g.wss))]
			g.evs = append(g.evs, c07Ev{Kind: "wo", A: a, X: g.nextC})
			g.clients[a] = append(g.clients[a], g.nextC)
			g.raws[a] = append(g.raws[a], g.nextC)
			g.nextC++
		case 14, 15:
			// a connected raw client sends a register message: a first one (accepted), a second one
			// or an unparsable endpoint (both refused, the agent drops the client)
			if len(g.wss) == 0 {
				continue
			}
			a := g.wss[g.r.Intn(len(g.wss))]
			rs := g.raws[a]
			if len(rs) == 0 {
				continue
			}
			c := rs[g.r.Intn(len(rs))]
			if g.r.Intn(5) == 0 {
				g.evs = append(g.evs, c07Ev{Kind: "wb", A: a, X: c})
				g.dropRaw(a, c)
				break
			}
			p := g.eidN()
			if len(g.used) > 0 && g.r.Intn(3) == 0 {
				p = g.used[g.r.Intn(len(g.used))]
			}
			g.evs = append(g.evs, c07Ev{Kind: "wg", A: a, X: c, N: p[0], D: p[1]})
			if g.rawReg[c] {
				g.dropRaw(a, c)
			} else {
				g.rawReg[c] = true
				g.used = append(g.used, p)
			}
		default:
			g.deliver()
		}
		return
	}
}

// final: fetch every uuid ever handed out (what is still in the mailboxes)
func (g *c07Gen) final() {
	for _, a := range g.rests {
		for _, u := range g.uuids[a] {
			g.evs = append(g.evs, c07Ev{Kind: "rf", A: a, X: u})
		}
	}
}

func c07Random(r *Rng, ws bool, nops int) []c07Ev {
	g := newC07Gen(r, ws)
	// initial agents, random kinds and order
	na := g.r.Intn(5)
	for i := 0; i < na; i++ {
		k := g.r.Intn(4)
		if k == 3 && !ws {
			k = g.r.Intn(3)
		}
		g.regAgent(k)
	}
	for i := 0; i < nops; i++ {
		g.op()
	}
	g.final()
	return g.evs
}

// c07Config: recipients of the given kinds (0 mock, 1 ping, 2 REST client, 3 WS client) registered in
// the given order, all for E1 (same=true) or alternating E1/E2; then deliveries to E1, E2 and to
// an endpoint nobody registered, with and without report request; then fetch everything.
func c07Config(kinds []int, same bool, foreign bool, restFirst bool) []c07Ev {
	g := newC07Gen(NewRng(1), true)
	node := 0
	if foreign {
		node = 7
	}
	e1, e2, e3 := [2]int{node, 1}, [2]int{node, 2}, [2]int{node, 3}
	rest, wsA := -1, -1
	if restFirst {
		// the container agents exist before anybody else registers
		for _, k := range kinds {
			if k == 2 && rest < 0 {
				rest = g.nextA
				g.regAgent(2)
			}
			if k == 3 && wsA < 0 {
				wsA = g.nextA
				g.regAgent(3)
			}
		}
	}
	for i, k := range kinds {
		p := e1
		if !same && i%2 == 1 {
			p = e2
		}
		switch k {
		case 0, 1:
			g.evs = append(g.evs, c07Ev{Kind: "reg", A: g.nextA, AKind: k, Eids: [][2]int{p}})
			g.nextA++
		case 2:
			if rest < 0 {
				rest = g.nextA
				g.regAgent(2)
			}
			g.evs = append(g.evs, c07Ev{Kind: "rr", A: rest, X: g.nextU, N: p[0], D: p[1]})
			g.uuids[rest] = append(g.uuids[rest], g.nextU)
			g.nextU++
		case 3:
			if wsA < 0 {
				wsA = g.nextA
				g.regAgent(3)
			}
			g.evs = append(g.evs, c07Ev{Kind: "wc", A: wsA, X: g.nextC, N: p[0], D: p[1]})
			g.nextC++
		}
	}
	for i, p := range [][2]int{e1, e2, e3, e1} {
		g.evs = append(g.evs, c07Ev{Kind: "dv", Bid: g.nextB, N: p[0], D: p[1], RN: 1, RD: 0, Want: (i + 1) % 2})
		g.nextB++
	}
	g.final()
	return g.evs
}

// c07ConfigUnreg: nU WebSocket clients that are connected but have not registered (and a REST agent
// whose only client, if any, is registered for another endpoint), optionally one registered
// recipient of kind `kind` (-1: none) for E1; deliveries to dtn:none, to E1 and to an endpoint
// nobody registered, with and without report request (report-to a peer / dtn:none); then the
// first raw client registers (late), the second one sends an unparsable endpoint, the first one
// registers a second time (refused: the agent drops it) - with deliveries after every change.
func c07ConfigUnreg(nU, kind int, foreign, restClient bool) []c07Ev {
	g := newC07Gen(NewRng(1), true)
	node := 0
	if foreign {
		node = 7
	}
	none := [2]int{8, 0}
	e1, e2, e3 := [2]int{node, 1}, [2]int{node, 2}, [2]int{node, 3}
	dv := func(p [2]int, want int, rpt [2]int) {
		g.evs = append(g.evs, c07Ev{Kind: "dv", Bid: g.nextB, N: p[0], D: p[1], RN: rpt[0], RD: rpt[1], Want: want})
		g.nextB++
	}
	peer := [2]int{1, 0}
	wsA := g.nextA
	g.regAgent(3)
	rest := g.nextA
	g.regAgent(2)
	if restClient {
		g.evs = append(g.evs, c07Ev{Kind: "rr", A: rest, X: g.nextU, N: e2[0], D: e2[1]})
		g.uuids[rest] = append(g.uuids[rest], g.nextU)
		g.nextU++
	}
	var raw []int
	for i := 0; i < nU; i++ {
		g.evs = append(g.evs, c07Ev{Kind: "wo", A: wsA, X: g.nextC})
		raw = append(raw, g.nextC)
		g.nextC++
	}
	switch kind {
	case 0, 1:
		g.evs = append(g.evs, c07Ev{Kind: "reg", A: g.nextA, AKind: kind, Eids: [][2]int{e1}})
		g.nextA++
	case 2:
		g.evs = append(g.evs, c07Ev{Kind: "rr", A: rest, X: g.nextU, N: e1[0], D: e1[1]})
		g.uuids[rest] = append(g.uuids[rest], g.nextU)
		g.nextU++
	case 3:
		g.evs = append(g.evs, c07Ev{Kind: "wc", A: wsA, X: g.nextC, N: e1[0], D: e1[1]})
		g.nextC++
	}
	dv(none, 1, peer)
	dv(none, 0, peer)
	dv(e1, 1, peer)
	dv(e3, 1, peer)
	dv(none, 1, none)
	g.evs = append(g.evs, c07Ev{Kind: "wg", A: wsA, X: raw[0], N: e1[0], D: e1[1]})
	dv(e1, 1, peer)
	dv(none, 1, peer)
	if nU > 1 {
		g.evs = append(g.evs, c07Ev{Kind: "wb", A: wsA, X: raw[1]})
		dv(none, 1, peer)
		dv(e1, 0, peer)
	}
	g.evs = append(g.evs, c07Ev{Kind: "wg", A: wsA, X: raw[0], N: e2[0], D: e2[1]})
	dv(e1, 1, peer)
	dv(e2, 1, peer)
	dv(none, 1, peer)
	g.final()
	return g.evs
}

func c07Seqs(alphabet, maxLen int) [][]int {
	out := [][]int{{}}
	cur := [][]int{{}}
	for l := 1; l <= maxLen; l++ {
		var nxt [][]int
		for _, s := range cur {
			for k := 0; k < alphabet; k++ {
				nxt = append(nxt, append(append([]int(nil), s...), k))
			}
		}
		out = append(out, nxt...)
		cur = nxt
	}
	return out
}

func genC07agents(o *Out, r *Rng, thorough bool) {
	log.SetLevel(log.InfoLevel)
	// (1) bounded-exhaustive configurations: every sequence of <= 3 recipients over the four
	// kinds = every registration order of every multiset of <= 3 recipients
	seqs := c07Seqs(4, 3)
	for i, s := range seqs {
		ws := false
		for _, k := range s {
			if k == 3 {
				ws = true
			}
		}
		if !thorough && ws && len(s) == 3 && i%4 != int(r.s%4) {
			continue // quick: a quarter of the three-recipient configurations with WebSocket clients
		}
		for v := 0; v < 4; v++ {
			if !thorough && v != i%4 && len(s) == 3 {
				continue
			}
			c07RunHistory(o, "config", c07Config(s, v&1 == 0, v&2 != 0, i%2 == 0))
		}
	}
	// (1b) connected but unregistered WebSocket clients, REST agent without a matching client
	for nU := 1; nU <= 2; nU++ {
		for kind := -1; kind <= 3; kind++ {
			for v := 0; v < 4; v++ {
				if !thorough && v != (nU+kind+int(r.s%4)+4)%4 {
					continue // quick: one of the four {node-local, foreign} x {REST client or not} variants
				}
				c07RunHistory(o, "unreg", c07ConfigUnreg(nU, kind, v&1 != 0, v&2 != 0))
			}
		}
	}
	// (2) random histories
	n, nws := 100, 30
	if thorough {
		n, nws = 1500, 300
	}
	for i := 0; i < n; i++ {
		c07RunHistory(o, "random", c07Random(r, false, 4+r.Intn(9)))
	}
	for i := 0; i < nws; i++ {
		c07RunHistory(o, "randomws", c07Random(r, true, 4+r.Intn(9)))
	}
}

// ---------------------------------------------------------------------------------------------
// deliver / fetch on one mailbox, concurrently

// c07LogHook turns the log call between mailbox.Load and mailbox.Delete in RestAgent.handleFetch
// into a schedule point (no change of the Go sources needed).
type c07LogHook struct {
	mu      sync.Mutex
	armed   bool
	reached chan struct{}
	release chan struct{}
}

func (h *c07LogHook) Levels() []log.Level { return []log.Level{log.InfoLevel} }
func (h *c07LogHook) Fire(e *log.Entry) error {
	if e.Message != "REST client fetches bundles" {
		return nil
	}
	h.mu.Lock()
	armed := h.armed
	h.armed = false
	h.mu.Unlock()
	if armed {
		h.reached <- struct{}{}
		<-h.release
	}
	return nil
}

var c07Hook *c07LogHook

type c07Rest struct {
	ra   *agent.RestAgent
	rtr  *mux.Router
	uuid string
	bs   []bpv7.Bundle
	js   map[string]int
}

func newC07Rest(nb int) *c07Rest {
	x := &c07Rest{rtr: mux.NewRouter(), js: map[string]int{}}
	x.ra = agent.NewRestAgent(x.rtr.PathPrefix("/rest").Subrouter())
	var rr agent.RestRegisterResponse
	_ = json.Unmarshal(c07Post(x.rtr, "/rest/register", agent.RestRegisterRequest{EndpointId: "dtn://n0/a"}), &rr)
	x.uuid = rr.UUID
	base := uint64(bpv7.DtnTimeNow())
	for i := 0; i < nb; i++ {
		b := MkBundle(BOpt{Src: "dtn://n3/s", Dst: "dtn://n0/a", ReportTo: "dtn://n1/", TS: base + uint64(i), Life: 3600000,
			Payload: []byte(fmt.Sprintf("p%d", i)), CRC: bpv7.CRC32})
		x.bs = append(x.bs, b)
		j, _ := json.Marshal(b)
		x.js[string(j)] = i
	}
	return x
}

// deliver hands bundle i to the agent and returns when the agent has processed it.
func (x *c07Rest) deliver(i int) {
	x.ra.MessageReceiver() <- agent.BundleMessage{Bundle: x.bs[i]}
	x.ra.MessageReceiver() <- c07Barrier{}
}
func (x *c07Rest) fetch() []int {
	var fr struct {
		Bundles []json.RawMessage `json:"bundles"`
	}
	_ = json.Unmarshal(c07Post(x.rtr, "/rest/fetch", agent.RestFetchRequest{UUID: x.uuid}), &fr)
	var ids []int
	for _, raw := range fr.Bundles {
		var cb bytes.Buffer
		_ = json.Compact(&cb, raw)
		if i, ok := x.js[cb.String()]; ok {
			ids = append(ids, i)
		} else {
			ids = append(ids, c07Altered)
		}
	}
	return ids
}
func (x *c07Rest) close() { x.ra.MessageReceiver() <- agent.ShutdownMessage{} }

func c07Ints(l []int) S {
	var r []S
	for _, i := range l {
		r = append(r, I(i))
	}
	return LL(r)
}

// c07Forced: with `pre` bundles in the mailbox a fetch is stopped between its Load and its Delete
// and a delivery is attempted in that window.  inwin tells whether the delivery completed inside
// the window (no mutual exclusion) or only after the fetch was released.
func c07Forced(o *Out, pre int) {
	x := newC07Rest(pre + 1)
	for i := 0; i < pre; i++ {
		x.deliver(i)
	}
	h := c07Hook
	h.mu.Lock()
	h.armed = true
	h.mu.Unlock()
	var f1 []int
	fdone := make(chan struct{})
	go func() { f1 = x.fetch(); close(fdone) }()
	inwin, window := false, false
	ddone := make(chan struct{})
	select {
	case <-h.reached:
		window = true
		go func() { x.deliver(pre); close(ddone) }()
		// did the delivery's Store happen inside the window?  (its completion cannot be used: the
		// log call after the Store waits for the logger, which the blocked hook holds)
		deadline := time.Now().Add(150 * time.Millisecond)
		for time.Now().Before(deadline) {
			if len(x.ra.VerifMailbox()[x.uuid]) > pre {
				inwin = true
				break
			}
			time.Sleep(200 * time.Microsecond)
		}
		h.release <- struct{}{}
		<-fdone
	case <-fdone:
		// empty mailbox: the fetch has no window
		h.mu.Lock()
		h.armed = false
		h.mu.Unlock()
		go func() { x.deliver(pre); close(ddone) }()
	}
	<-ddone
	f2 := x.fetch()
	x.close()
	o.Case("racef", I(pre), B(window), B(inwin), c07Ints(f1), c07Ints(f2))
}

// c07Stress: k deliveries race with a fetch loop; hook-free.
func c07Stress(o *Out, k int) {
	x := newC07Rest(k)
	var all []int
	nf := 0
	done := make(chan struct{})
	go func() {
		for i := 0; i < k; i++ {
			x.deliver(i)
		}
		close(done)
	}()
loop:
	for {
		select {
		case <-done:
			break loop
		default:
			all = append(all, x.fetch()...)
			nf++
		}
	}
	all = append(all, x.fetch()...)
	x.close()
	o.Case("races", I(k), I(nf), c07Ints(all))
}

func genC07race(o *Out, r *Rng, thorough bool) {
	log.SetLevel(log.InfoLevel)
	if c07Hook == nil {
		c07Hook = &c07LogHook{reached: make(chan struct{}), release: make(chan struct{})}
		log.AddHook(c07Hook)
	}
	nf, ns, k := 2, 6, 400
	if thorough {
		nf, ns, k = 10, 40, 3000
	}
	for i := 0; i < nf; i++ {
		for pre := 0; pre <= 3; pre++ {
			c07Forced(o, pre)
		}
	}
	for i := 0; i < ns; i++ {
		c07Stress(o, k+r.Intn(k))
	}
}

func init() {
	register("C07agents", genC07agents)
	register("C07race", genC07race)
}
