package main

// C08: the bundle store as a durable map.  Generators run the real storage.Store
//   seq   - random operation sequences (push bundle / fragment, update, delete, expiry sweep, queries,
//           close + reopen) with a full dump of the observable state after every operation;
//   crash - a CHILD process (this binary, hidden generator C08storechild) performs one operation with
//           VERIF_CRASH=<point>, is killed there (exit 99); the parent reopens the directory, dumps it,
//           then starts a real routing.Core on it and runs the restart entry points;
//   conc  - N goroutines push N different fragments of one bundle at once;
//   hand  - records of hand-built ("foreign") fragments: lone covering / partial fragments, drawn cut points;
//           operations that name a record are addressed by any of the IDs denoting it (scrubbed or fragment ID).
// Observables are canonicalised: ids are indices of the scrubbed bundle-ID strings, parts sorted by
// (offset, total), loaded bundles named by their index in the case's universe (or raw hex), expiry in
// unix ms as derived from fixed creation times (never "now").

import (
	"bytes"
	"encoding/hex"
	"fmt"
	"io/ioutil"
	"os"
	"os/exec"
	"path/filepath"
	"sort"
	"strings"
	"sync"
	"time"

	"github.com/dtn7/dtn7-go/pkg/bpv7"
	"github.com/dtn7/dtn7-go/pkg/routing"
	"github.com/dtn7/dtn7-go/pkg/storage"
)

type c08B struct {
	B     bpv7.Bundle
	Raw   []byte
	K     int
	Frag  bool
	Off   uint64
	Total uint64
	Plen  uint64
	Exp   int64 // unix ms
}

type c08U struct {
	thorough bool
	bs   []c08B
	keys []string       // scrubbed id strings; index = k
	kmap map[string]int // scrubbed id string -> k
	raw  map[string]int // hex(raw) -> universe index
	// hand-built fragments of base bundle 0 (not produced by dtn7's own Fragment()): universe indices
	cover   []int   // a lone fragment [0, total) that covers the whole payload (total may be 0)
	partial []int   // lone partial ones: a head [0, x), a tail [y, total), a middle piece
	cuts    [][]int // fragmentations at drawn cut points (uneven, 1-byte pieces, optionally overlapping)
}

// ofKey: the universe indices of all bundles whose IDs denote record k - the whole bundle (scrubbed
// ID) and every fragment (ID with offset and total length)
func (u *c08U) ofKey(k int) []int {
	var l []int
	for i, b := range u.bs {
		if b.K == k {
			l = append(l, i)
		}
	}
	return l
}

// c08HandFrag builds the fragment [off, end) of a bundle the way another implementation might: every
// block in the first fragment, replicated blocks only in the others, no regard to any MTU.
func c08HandFrag(whole bpv7.Bundle, off, end uint64) bpv7.Bundle {
	pl, err := whole.PayloadBlock()
	if err != nil {
		panic(err)
	}
	data := pl.Value.(*bpv7.PayloadBlock).Data()
	pb := whole.PrimaryBlock
	pb.BundleControlFlags |= bpv7.IsFragment
	pb.FragmentOffset = off
	pb.TotalDataLength = uint64(len(data))
	var cbs []bpv7.CanonicalBlock
	for _, cb := range whole.CanonicalBlocks {
		if cb.TypeCode() == bpv7.ExtBlockTypePayloadBlock {
			cbs = append(cbs, bpv7.CanonicalBlock{BlockNumber: cb.BlockNumber, BlockControlFlags: cb.BlockControlFlags, CRCType: cb.CRCType,
				Value: bpv7.NewPayloadBlock(append([]byte{}, data[off:end]...))})
		} else if off == 0 || cb.BlockControlFlags.Has(bpv7.ReplicateBlock) {
			cbs = append(cbs, cb)
		}
	}
	b := bpv7.MustNewBundle(pb, cbs)
	if err := b.CheckValid(); err != nil {
		panic(err)
	}
	return b
}

const c08Epoch2k = 946684800000

func (u *c08U) add(b bpv7.Bundle) int {
	raw := BundleBytes(b)
	if raw == nil {
		panic("c08: cannot serialise")
	}
	h := hex.EncodeToString(raw)
	if i, ok := u.raw[h]; ok {
		return i
	}
	ks := b.ID().Scrub().String()
	k, ok := u.kmap[ks]
	if !ok {
		k = len(u.keys)
		u.keys = append(u.keys, ks)
		u.kmap[ks] = k
	}
	pl, err := b.PayloadBlock()
	if err != nil {
		panic(err)
	}
	plen := uint64(len(pl.Value.(*bpv7.PayloadBlock).Data()))
	exp := int64(b.PrimaryBlock.CreationTimestamp.DtnTime()) + c08Epoch2k + int64(b.PrimaryBlock.Lifetime)
	id := b.ID()
	u.bs = append(u.bs, c08B{B: b, Raw: raw, K: k, Frag: id.IsFragment, Off: id.FragmentOffset, Total: id.TotalDataLength, Plen: plen, Exp: exp})
	u.raw[h] = len(u.bs) - 1
	return len(u.bs) - 1
}

func (u *c08U) sexp() S {
	var l []S
	for _, b := range u.bs {
		l = append(l, L(I(b.K), B(b.Frag), U(b.Off), U(b.Total), U(b.Plen), I64(b.Exp), X(b.Raw)))
	}
	return LL(l)
}

// past: expired in 2021; future: expires around 2121
var c08Base = time.Date(2021, 3, 1, 12, 0, 0, 0, time.UTC)

const c08Century = uint64(100 * 365 * 24 * 3600 * 1000)

func c08Fragments(b bpv7.Bundle, want int) []bpv7.Bundle {
	// find an MTU that yields about `want` fragments
	var best []bpv7.Bundle
	for mtu := 60; mtu < 400; mtu += 7 {
		fs, err := b.Fragment(mtu)
		if err != nil || len(fs) < 2 {
			continue
		}
		if best == nil || abs(len(fs)-want) < abs(len(best)-want) {
			best = fs
		}
		if len(fs) == want {
			break
		}
	}
	return best
}
func abs(x int) int {
	if x < 0 {
		return -x
	}
	return x
}

// newUniverse: nBase base bundles; for each the whole bundle, a same-ID variant with a shorter payload
// (different bytes under the same file name), and the fragments of one or two fragmentations.
func c08Universe(r *Rng, nBase int, twoFrag bool, tag int, allowPast bool) *c08U {
	return c08UniverseH(r, nBase, twoFrag, tag, allowPast, false)
}

// hand: base bundle 0 also gets hand-built fragments (see c08U.cover / partial / cuts), and may have a
// tiny or empty payload
func c08UniverseH(r *Rng, nBase int, twoFrag bool, tag int, allowPast bool, hand bool) *c08U {
	u := &c08U{kmap: map[string]int{}, raw: map[string]int{}}
	for j := 0; j < nBase; j++ {
		// a bundle whose own lifetime is exceeded cannot be built or parsed (CheckValid), but it can sit
		// in the store: build it with a long lifetime, then shorten the lifetime of every variant
		pastLife := uint64(0)
		if allowPast && r.Intn(5) < 2 {
			pastLife = uint64(3600000 + r.Intn(1000))
		}
		life := c08Century + uint64(r.Intn(1000))
		crc := []bpv7.CRCType{bpv7.CRCNo, bpv7.CRC16, bpv7.CRC32}[r.Intn(3)]
		plen := 40 + r.Intn(160)
		if hand && j == 0 {
			switch r.Intn(8) {
			case 0:
				plen = 0
			case 1:
				plen = 1 + r.Intn(3)
			}
		}
		pay := r.Bytes(plen)
		o := BOpt{Src: fmt.Sprintf("dtn://s%d-%d/a", tag, j), Dst: "dtn://dst/x", TS: uint64(bpv7.DtnTimeFromTime(c08Base.Add(time.Duration(j) * time.Hour))),
			Life: life, Payload: pay, CRC: crc}
		whole := MkBundle(o)
		all := []bpv7.Bundle{whole}
		if plen >= 2 {
			o2 := o
			o2.Payload = r.Bytes(1 + r.Intn(plen-1))
			all = append(all, MkBundle(o2))
		}
		all = append(all, c08Fragments(whole, 2+r.Intn(4))...)
		if twoFrag {
			all = append(all, c08Fragments(whole, 2+r.Intn(6))...)
		}
		put := func(b bpv7.Bundle) int {
			if pastLife != 0 {
				b.PrimaryBlock.Lifetime = pastLife
			}
			return u.add(b)
		}
		for _, b := range all {
			put(b)
		}
		if hand && j == 0 {
			n := uint64(plen)
			u.cover = append(u.cover, put(c08HandFrag(whole, 0, n)))
			if n >= 2 {
				x := 1 + uint64(r.Intn(plen-1)) // 1 .. n-1
				u.partial = append(u.partial, put(c08HandFrag(whole, x, n)))
				if n >= 3 {
					y := 1 + uint64(r.Intn(plen-2))
					u.partial = append(u.partial, put(c08HandFrag(whole, y, y+1+uint64(r.Intn(int(n-y-1))))))
				}
				// the head last: its ID (offset 0, same total) is the ID of the covering fragment, so only
				// one of the two can be in a record; scenarios choose
				u.partial = append(u.partial, put(c08HandFrag(whole, 0, x)))
				for c := 0; c < 2; c++ {
					// cut points: a drawn subset of 1..n-1, pieces between neighbours; the second
					// fragmentation lets every piece reach up to 3 bytes into its successor
					var pts []uint64
					for p := uint64(1); p < n; p++ {
						if r.Intn(plen) < 1+r.Intn(5) || p == 1 && r.Intn(4) == 0 {
							pts = append(pts, p)
						}
					}
					if len(pts) == 0 {
						pts = []uint64{1 + uint64(r.Intn(plen-1))}
					}
					pts = append(append([]uint64{0}, pts...), n)
					var set []int
					for i := 0; i+1 < len(pts); i++ {
						end := pts[i+1]
						if c == 1 && end < n {
							end += uint64(r.Intn(4))
							if end > n {
								end = n
							}
						}
						set = append(set, put(c08HandFrag(whole, pts[i], end)))
					}
					u.cuts = append(u.cuts, set)
				}
			}
		}
	}
	return u
}

// ---- observation ----

func (u *c08U) dataS(bp storage.BundlePart) S {
	b, err := bp.Load()
	if err != nil {
		return Sym("err")
	}
	raw := BundleBytes(b)
	if i, ok := u.raw[hex.EncodeToString(raw)]; ok {
		return I(i)
	}
	return X(raw)
}

func (u *c08U) recS(bi storage.BundleItem) S {
	type pp struct {
		off, total uint64
		d          S
	}
	var ps []pp
	for _, p := range bi.Parts {
		ps = append(ps, pp{p.FragmentOffset, p.TotalDataLength, u.dataS(p)})
	}
	sort.SliceStable(ps, func(i, j int) bool {
		if ps[i].off != ps[j].off {
			return ps[i].off < ps[j].off
		}
		return ps[i].total < ps[j].total
	})
	var pl []S
	for _, p := range ps {
		pl = append(pl, L(U(p.off), U(p.total), p.d))
	}
	tag := uint64(0)
	if v, ok := bi.Properties["verif/tag"]; ok {
		if t, ok := v.(uint64); ok {
			tag = t
		} else {
			tag = 999999
		}
	}
	return L(B(bi.Pending), I64(bi.Expires.UnixNano()/1000000), B(bi.Fragmented), U(tag), LL(pl))
}

func (u *c08U) keyOf(bi storage.BundleItem) int {
	if k, ok := u.kmap[bi.Id]; ok && bi.BId.String() == bi.Id {
		return k
	}
	return 999999
}

func (u *c08U) idOfKey(k int) bpv7.BundleID {
	for _, b := range u.bs {
		if b.K == k {
			return b.B.ID()
		}
	}
	panic("c08: no bundle for key")
}

// dump: every record reachable by QueryId over the universe's ids + the part files present
func (u *c08U) dump(st *storage.Store) S {
	var recs []S
	for k := range u.keys {
		bi, err := st.QueryId(u.idOfKey(k))
		if err != nil {
			continue
		}
		kk := u.keyOf(bi)
		if kk != k {
			kk = 999999
		}
		recs = append(recs, L(I(kk), u.recS(bi)))
	}
	// files
	names := map[string]S{}
	for _, b := range u.bs {
		p := filepath.Base(storage.VerifPartPath(b.B.ID(), st.VerifBundleDir()))
		if b.Frag {
			names[p] = L(I(b.K), B(true), U(b.Off), U(b.Total))
		} else {
			names[p] = L(I(b.K), B(false), U(0), U(0))
		}
	}
	fis, _ := ioutil.ReadDir(st.VerifBundleDir())
	var fl []string
	for _, fi := range fis {
		if s, ok := names[fi.Name()]; ok {
			fl = append(fl, SString(s))
		} else {
			fl = append(fl, "(999999 0 0 0)")
		}
	}
	sort.Strings(fl)
	var fs []S
	for _, f := range fl {
		fs = append(fs, Sym(f))
	}
	return L(LL(recs), LL(fs))
}

// ---- operations ----

type c08Op struct {
	kind string
	i    int // universe index (push) or key (others)
	pe   bool
	pr   uint64
	ex   int64
	// the ID the operation is addressed with: 0 = the ID of the first bundle of key i (the whole bundle:
	// a scrubbed ID), n+1 = the ID of universe bundle n (of key i) - for a fragment the full fragment ID,
	// as the Core's BundleDescriptors carry it
	via int
	// del only: through routing.BundleDescriptor.Sync of a descriptor without constraints
	sync bool
}

func (u *c08U) idFor(op c08Op) bpv7.BundleID {
	if op.via > 0 {
		if u.bs[op.via-1].K != op.i {
			panic("c08: via of another key")
		}
		return u.bs[op.via-1].B.ID()
	}
	return u.idOfKey(op.i)
}

func (op c08Op) viaS(l ...S) S {
	if op.via > 0 {
		l = append(l, I(op.via-1))
	}
	return LL(l)
}

func (op c08Op) sexp(now int64) S {
	switch op.kind {
	case "push":
		return L(Sym("push"), I(op.i))
	case "upd":
		return op.viaS(Sym("upd"), I(op.i), B(op.pe), U(op.pr), I64(op.ex))
	case "del", "qid", "knows", "complete":
		return op.viaS(Sym(op.kind), I(op.i))
	case "sweep":
		return L(Sym("sweep"), I64(now))
	}
	return L(Sym(op.kind))
}

func c08Guard(f func()) (panicked bool) {
	defer func() {
		if e := recover(); e != nil {
			panicked = true
		}
	}()
	f()
	return false
}

// doOp runs one operation on the real store and returns (op as recorded, result)
func (u *c08U) doOp(st **storage.Store, dir string, op c08Op) (S, S) {
	s := *st
	switch op.kind {
	case "push":
		err := s.Push(u.bs[op.i].B)
		return op.sexp(0), L(Sym("unit"), B(err == nil))
	case "upd":
		id := u.idFor(op)
		bi, err := s.QueryId(id)
		if err != nil {
			bi = storage.BundleItem{Id: id.Scrub().String(), BId: id.Scrub(), Properties: map[string]interface{}{}}
		}
		bi.Pending = op.pe
		bi.Properties["verif/tag"] = op.pr
		bi.Expires = time.Unix(0, op.ex*1000000).UTC()
		err = s.Update(bi)
		return op.sexp(0), L(Sym("unit"), B(err == nil))
	case "del":
		id := u.idFor(op)
		var err error
		if op.sync && s.KnowsBundle(id) {
			// the Core's way: a descriptor whose last constraint is gone synchronises itself away
			err = routing.NewBundleDescriptor(id, s).Sync()
		} else {
			err = s.Delete(id)
		}
		return op.sexp(0), L(Sym("unit"), B(err == nil))
	case "sweep":
		now := time.Now().UnixNano() / 1000000
		s.DeleteExpired()
		return op.sexp(now), L(Sym("unit"), B(true))
	case "qid":
		bi, err := s.QueryId(u.idFor(op))
		if err != nil {
			return op.sexp(0), L(Sym("rec"), Sym("none"))
		}
		return op.sexp(0), L(Sym("rec"), L(I(u.keyOf(bi)), u.recS(bi)))
	case "qpend":
		bis, err := s.QueryPending()
		if err != nil {
			return op.sexp(0), L(Sym("recs"), Sym("err"))
		}
		sort.Slice(bis, func(i, j int) bool { return u.keyOf(bis[i]) < u.keyOf(bis[j]) })
		var l []S
		for _, bi := range bis {
			l = append(l, L(I(u.keyOf(bi)), u.recS(bi)))
		}
		return op.sexp(0), L(Sym("recs"), LL(l))
	case "knows":
		return op.sexp(0), L(Sym("bool"), B(s.KnowsBundle(u.idFor(op))))
	case "complete":
		bi, err := s.QueryId(u.idFor(op))
		if err != nil {
			return op.sexp(0), L(Sym("optbool"), Sym("none"))
		}
		return op.sexp(0), L(Sym("optbool"), B(bi.IsComplete()))
	case "reopen":
		if err := s.Close(); err != nil {
			panic(err)
		}
		ns, err := storage.NewStore(dir)
		if err != nil {
			panic(err)
		}
		*st = ns
		return op.sexp(0), L(Sym("unit"), B(true))
	}
	panic("c08: op " + op.kind)
}

// store directories: badger fsyncs every write, which on a shared disk makes the run time depend on the
// other load of the machine; a tmpfs keeps it predictable (a process kill loses nothing there either)
func c08Dir() string {
	for _, base := range []string{os.Getenv("VERIF_C08_TMP"), "/dev/shm"} {
		if base == "" {
			continue
		}
		if d, err := ioutil.TempDir(base, "verif-c08-"); err == nil {
			return d
		}
	}
	return workDir()
}

// randOp: a drawn operation; operations that name a record do so by a drawn one of the IDs denoting
// it (half of them by the scrubbed ID as before)
func (u *c08U) randOp(r *Rng) c08Op {
	op := u.randOp0(r)
	switch op.kind {
	case "upd", "del", "qid", "knows", "complete":
		if r.Bool() {
			l := u.ofKey(op.i)
			op.via = l[r.Intn(len(l))] + 1
		}
		if op.kind == "del" {
			op.sync = r.Intn(3) == 0
		}
	}
	return op
}

func (u *c08U) randOp0(r *Rng) c08Op {
	nk := len(u.keys)
	x := r.Intn(100)
	switch {
	case x < 40:
		return c08Op{kind: "push", i: r.Intn(len(u.bs))}
	case x < 52:
		ex := int64(1500000000000 + r.Intn(1000)) // 2017: expired
		if r.Bool() {
			ex = int64(4800000000000 + r.Intn(1000)) // 2122
		}
		return c08Op{kind: "upd", i: r.Intn(nk), pe: r.Bool(), pr: uint64(1 + r.Intn(50)), ex: ex}
	case x < 62:
		return c08Op{kind: "del", i: r.Intn(nk)}
	case x < 68:
		return c08Op{kind: "sweep"}
	case x < 74:
		return c08Op{kind: "qid", i: r.Intn(nk)}
	case x < 80:
		return c08Op{kind: "qpend"}
	case x < 84:
		return c08Op{kind: "knows", i: r.Intn(nk)}
	case x < 94:
		return c08Op{kind: "complete", i: r.Intn(nk)}
	case x < 97:
		return c08Op{kind: "qid", i: r.Intn(nk)}
	default:
		if !u.thorough && r.Intn(3) != 0 { // opening badger costs ~0.3 s
			return c08Op{kind: "qpend"}
		}
		return c08Op{kind: "reopen"}
	}
}

// cleanup removes every record of the universe, so that the next case starts on an empty store
func (u *c08U) cleanup(st *storage.Store) {
	for k := range u.keys {
		if err := st.Delete(u.idOfKey(k)); err != nil {
			panic(err)
		}
	}
	// orphan files cannot exist here (no crash), but be sure the directory is empty
	fis, _ := ioutil.ReadDir(st.VerifBundleDir())
	for _, fi := range fis {
		os.Remove(filepath.Join(st.VerifBundleDir(), fi.Name()))
	}
}

func genC08store(o *Out, r *Rng, thorough bool) {
	nseq, ncrash, nconc := 150, 1, 12
	if thorough {
		nseq, ncrash, nconc = 3000, 12, 200
	}
	t0 := time.Now()
	dir := c08Dir()
	st, err := storage.NewStore(dir)
	if err != nil {
		panic(err)
	}
	// --- seq ---
	for s := 0; s < nseq; s++ {
		u := c08UniverseH(r, 1+r.Intn(3), r.Intn(3) > 0, s, true, r.Bool())
		u.thorough = thorough
		nops := 5 + r.Intn(21)
		var steps []S
		focus := -1
		if r.Intn(3) == 0 { // fragment-heavy sequence on one id
			focus = r.Intn(len(u.keys))
		}
		for i := 0; i < nops; i++ {
			op := u.randOp(r)
			if focus >= 0 && op.kind == "push" {
				for t := 0; t < 20 && (u.bs[op.i].K != focus || !u.bs[op.i].Frag); t++ {
					op.i = r.Intn(len(u.bs))
				}
			}
			so, res := u.doOp(&st, dir, op)
			steps = append(steps, L(so, res, u.dump(st)))
		}
		o.Case("seq", u.sexp(), I64(time.Now().UnixNano()/1000000), LL(steps))
		u.cleanup(st)
	}
	// --- foreign fragmentations and lone fragments, every operation addressed by fragment IDs ---
	nhand := 48
	if thorough {
		nhand = 960
	}
	for s := 0; s < nhand; s++ {
		c08Hand(o, r, s, &st, dir, thorough)
	}
	// --- exhaustive small scope: every sequence of length `depth` over 7 operations on one bundle ID ---
	{
		depth := 2
		if thorough {
			depth = 4
		}
		u := c08Universe(r, 1, false, 900000, false)
		var fr []int
		for i, b := range u.bs {
			if b.Frag {
				fr = append(fr, i)
			}
		}
		alpha := []c08Op{{kind: "push", i: 0}, {kind: "push", i: fr[0]}, {kind: "push", i: fr[len(fr)-1]}, {kind: "del", i: 0}, {kind: "sweep"},
			{kind: "upd", i: 0, pe: true, pr: 2, ex: 1500000000000}, {kind: "upd", i: 0, pe: false, pr: 3, ex: 4800000000000}}
		total := 1
		for i := 0; i < depth; i++ {
			total *= len(alpha)
		}
		for n := 0; n < total; n++ {
			var steps []S
			x := n
			for i := 0; i < depth; i++ {
				so, res := u.doOp(&st, dir, alpha[x%len(alpha)])
				x /= len(alpha)
				steps = append(steps, L(so, res, u.dump(st)))
			}
			_, res := u.doOp(&st, dir, c08Op{kind: "complete", i: 0})
			steps = append(steps, L(L(Sym("complete"), I(0)), res, u.dump(st)))
			_, res = u.doOp(&st, dir, c08Op{kind: "qpend"})
			steps = append(steps, L(L(Sym("qpend")), res, u.dump(st)))
			o.Case("seq", u.sexp(), I64(time.Now().UnixNano()/1000000), LL(steps))
			u.cleanup(st)
		}
	}
	t1 := time.Now()
	// --- conc ---
	for s := 0; s < nconc; s++ {
		c08Conc(o, r, s, &st, dir)
	}
	if err := st.Close(); err != nil {
		panic(err)
	}
	os.RemoveAll(dir)
	t2 := time.Now()
	// --- crash ---
	c08Crash(o, r, ncrash)
	if os.Getenv("VERIF_C08_DEBUG") != "" {
		fmt.Fprintf(os.Stderr, "c08: seq %v conc %v crash %v\n", t1.Sub(t0), t2.Sub(t1), time.Since(t2))
	}
}

// ---- hand-built fragments ----

// c08Hand: one record made of fragments that dtn7's own Fragment() would not produce - a lone fragment
// covering the whole payload (also of an empty payload), lone partial ones, fragmentations at drawn cut
// points (uneven, 1-byte pieces, overlapping) arriving in a drawn order, complete or with one piece
// missing that arrives later - with IsComplete asked after every arrival; then the record is queried,
// updated and deleted under the IDs of its fragments, the fragments arrive again, and a drawn tail of
// operations follows.  A second record (whole bundle) stands by.
func c08Hand(o *Out, r *Rng, s int, stp **storage.Store, dir string, thorough bool) {
	u := c08UniverseH(r, 2, false, 3000+s, false, true)
	u.thorough = thorough
	var steps []S
	do := func(op c08Op) {
		so, res := u.doOp(stp, dir, op)
		steps = append(steps, L(so, res, u.dump(*stp)))
	}
	anyVia := func() int { l := u.ofKey(0); return l[r.Intn(len(l))] + 1 }
	reopen := func(p int) { // opening badger costs ~0.3 s
		if !thorough {
			p *= 3
		}
		if r.Intn(p) == 0 {
			do(c08Op{kind: "reopen"})
		}
	}
	var stored []int
	push := func(i int) {
		do(c08Op{kind: "push", i: i})
		stored = append(stored, i)
		op := c08Op{kind: "complete", i: 0}
		if r.Bool() {
			op.via = stored[r.Intn(len(stored))] + 1
		}
		do(op)
	}
	if r.Bool() {
		do(c08Op{kind: "push", i: c08AnyOfKey(u, 1)})
	}
	mode := s % 6
	if len(u.partial) == 0 { // payload of 0 or 1 bytes: nothing but the covering fragment
		mode = 0
	}
	switch mode {
	case 0: // lone covering fragment
		push(u.cover[0])
	case 1: // lone partial fragment(s); the covering one afterwards (ignored as known when the head is stored)
		push(u.partial[r.Intn(len(u.partial))])
		if r.Bool() {
			push(u.partial[r.Intn(len(u.partial))])
		}
		if r.Bool() {
			push(u.cover[0])
		}
	case 2, 3: // a foreign fragmentation in a drawn order; 3: one piece comes last, after the questions
		set := append([]int{}, u.cuts[mode-2]...)
		for i := len(set) - 1; i > 0; i-- {
			j := r.Intn(i + 1)
			set[i], set[j] = set[j], set[i]
		}
		for _, i := range set[1:] {
			push(i)
		}
		if mode == 3 {
			do(c08Op{kind: "qid", i: 0, via: anyVia()})
			reopen(2)
		}
		push(set[0])
	case 4: // pieces of both fragmentations mixed, then the covering fragment
		for n := 1 + r.Intn(4); n > 0; n-- {
			set := u.cuts[r.Intn(2)]
			push(set[r.Intn(len(set))])
		}
		push(u.cover[0])
	case 5: // a fragment of dtn7's own fragmentation next to foreign ones
		for _, i := range u.ofKey(0) {
			if u.bs[i].Frag && r.Intn(3) == 0 && len(stored) < 4 {
				push(i)
			}
		}
		push(u.partial[r.Intn(len(u.partial))])
	}
	// the record under the IDs of its fragments
	fragVia := func() int { return stored[r.Intn(len(stored))] + 1 }
	do(c08Op{kind: "knows", i: 0, via: fragVia()})
	if r.Bool() {
		do(c08Op{kind: "upd", i: 0, pe: true, pr: uint64(1 + r.Intn(50)), ex: int64(4800000000000 + r.Intn(1000)), via: fragVia()})
		do(c08Op{kind: "qpend"})
	}
	reopen(4)
	do(c08Op{kind: "del", i: 0, via: fragVia(), sync: r.Bool()})
	do(c08Op{kind: "knows", i: 0, via: anyVia()})
	do(c08Op{kind: "qpend"})
	reopen(4)
	// the fragments arrive again
	again := append([]int{}, stored...)
	stored = nil
	for _, i := range again {
		if r.Intn(4) > 0 {
			push(i)
		}
	}
	for n := r.Intn(8); n > 0; n-- {
		do(u.randOp(r))
	}
	do(c08Op{kind: "complete", i: 0, via: anyVia()})
	o.Case("seq", u.sexp(), I64(time.Now().UnixNano()/1000000), LL(steps))
	u.cleanup(*stp)
}

// ---- crash scenarios ----

type c08Scenario struct {
	pre    []c08Op
	op     c08Op
	point  string
	nth    int
	repush int
}

func c08Crash(o *Out, r *Rng, rounds int) {
	for round := 0; round < rounds; round++ {
		u := c08Universe(r, 3, false, 1000+round, false)
		// per key: whole bundle index, variant index, fragment indices
		whole := map[int]int{}
		variant := map[int]int{}
		frags := map[int][]int{}
		for i, b := range u.bs {
			if b.Frag {
				frags[b.K] = append(frags[b.K], i)
			} else if _, ok := whole[b.K]; !ok {
				whole[b.K] = i
			} else {
				variant[b.K] = i
			}
		}
		future := int64(4800000000000)
		past := int64(1500000000000)
		// background records: key 1 whole (pending, future), key 2 two fragments (not pending)
		bg := []c08Op{{kind: "push", i: whole[1]}, {kind: "upd", i: 1, pe: true, pr: 7, ex: future},
			{kind: "push", i: frags[2][0]}, {kind: "push", i: frags[2][len(frags[2])-1]}}
		f0 := frags[0]
		var scs []c08Scenario
		// push of a new bundle, killed between file write and insert; afterwards the same-ID variant
		// (shorter serialisation) is pushed over the orphan file: stale tail
		scs = append(scs, c08Scenario{pre: bg, op: c08Op{kind: "push", i: whole[0]}, point: "push.before-insert", nth: 1, repush: variant[0]})
		scs = append(scs, c08Scenario{pre: bg, op: c08Op{kind: "push", i: f0[0]}, point: "push.before-insert", nth: 1, repush: f0[0]})
		// push of a further fragment, killed between file write and update
		scs = append(scs, c08Scenario{pre: append(append([]c08Op{}, bg...), c08Op{kind: "push", i: f0[0]}, c08Op{kind: "upd", i: 0, pe: true, pr: 9, ex: future}),
			op: c08Op{kind: "push", i: f0[1]}, point: "push.before-update", nth: 1, repush: f0[1]})
		// point not reached: push of a known bundle
		scs = append(scs, c08Scenario{pre: append(append([]c08Op{}, bg...), c08Op{kind: "push", i: whole[0]}),
			op: c08Op{kind: "push", i: whole[0]}, point: "push.before-insert", nth: 1, repush: whole[0]})
		// delete of a whole bundle: after the file removal / before the index delete
		preW := append(append([]c08Op{}, bg...), c08Op{kind: "push", i: whole[0]}, c08Op{kind: "upd", i: 0, pe: true, pr: 3, ex: future})
		scs = append(scs, c08Scenario{pre: preW, op: c08Op{kind: "del", i: 0}, point: "delete.after-part", nth: 1, repush: whole[0]})
		scs = append(scs, c08Scenario{pre: preW, op: c08Op{kind: "del", i: 0}, point: "delete.before-index", nth: 1, repush: variant[0]})
		// delete of a fragmented record with all its fragments: after each file removal
		preF := append([]c08Op{}, bg...)
		for _, i := range f0 {
			preF = append(preF, c08Op{kind: "push", i: i})
		}
		preFp := append(append([]c08Op{}, preF...), c08Op{kind: "upd", i: 0, pe: true, pr: 4, ex: future})
		for n := 1; n <= len(f0); n++ {
			if n > 2 && n < len(f0) && round%2 == 0 {
				continue
			}
			// addressed by the ID of the n-th fragment (every other one: by the scrubbed ID)
			scs = append(scs, c08Scenario{pre: preFp, op: c08Op{kind: "del", i: 0, via: (n % 2) * (f0[n-1] + 1)}, point: "delete.after-part", nth: n, repush: f0[r.Intn(len(f0))]})
		}
		scs = append(scs, c08Scenario{pre: preFp, op: c08Op{kind: "del", i: 0}, point: "delete.before-index", nth: 1, repush: f0[0]})
		// point not reached: the delete, addressed by the ID of the last fragment, runs to its end in the child
		scs = append(scs, c08Scenario{pre: preFp, op: c08Op{kind: "del", i: 0, via: f0[len(f0)-1] + 1}, point: "push.before-insert", nth: 1, repush: f0[0]})
		// expiry sweep with one expired multi-part record, killed inside
		preS := append(append([]c08Op{}, preF...), c08Op{kind: "upd", i: 0, pe: false, pr: 5, ex: past})
		scs = append(scs, c08Scenario{pre: preS, op: c08Op{kind: "sweep"}, point: "delete.after-part", nth: 1 + r.Intn(len(f0)), repush: f0[0]})
		scs = append(scs, c08Scenario{pre: preS, op: c08Op{kind: "sweep"}, point: "delete.before-index", nth: 1, repush: whole[0]})
		for _, sc := range scs {
			c08RunCrash(o, u, sc, round)
		}
	}
}

func (u *c08U) opSpec(op c08Op) string {
	switch op.kind {
	case "push":
		return "push:" + hex.EncodeToString(u.bs[op.i].Raw)
	case "del":
		if op.via > 0 {
			return "del:" + hex.EncodeToString(u.bs[op.via-1].Raw)
		}
		return "del:" + hex.EncodeToString(u.bs[c08AnyOfKey(u, op.i)].Raw)
	case "upd":
		return fmt.Sprintf("upd:%s:%v:%d:%d", hex.EncodeToString(u.bs[c08AnyOfKey(u, op.i)].Raw), op.pe, op.pr, op.ex)
	case "sweep":
		return "sweep:"
	}
	panic("c08: opSpec")
}

func c08RunCrash(o *Out, u *c08U, sc c08Scenario, round int) {
	dir := c08Dir()
	defer os.RemoveAll(dir)
	// the child performs the preparing operations, then the operation under test with the crash point armed
	var pre []S
	var lines []string
	for _, op := range sc.pre {
		pre = append(pre, op.sexp(0))
		lines = append(lines, u.opSpec(op))
	}
	lines = append(lines, u.opSpec(sc.op))
	opsFile := dir + ".ops"
	if err := ioutil.WriteFile(opsFile, []byte(strings.Join(lines, "\n")), 0600); err != nil {
		panic(err)
	}
	defer os.Remove(opsFile)
	now := time.Now().UnixNano() / 1000000
	cmd := exec.Command(os.Args[0], "-prop", "C08storechild")
	cmd.Env = append(os.Environ(), "VERIF_C08_DIR="+dir, "VERIF_C08_OPS="+opsFile, fmt.Sprintf("VERIF_C08_POINT=%s#%d", sc.point, sc.nth), "VERIF_CRASH=")
	cmd.Stdout, cmd.Stderr = nil, nil
	code := 0
	if err := cmd.Run(); err != nil {
		if ee, ok := err.(*exec.ExitError); ok {
			code = ee.ExitCode()
		} else {
			panic(err)
		}
	}
	// restart: a real Core on the directory (NewCore opens the store); dump, then its entry points
	reopenOK, coreOK := true, true
	pCheck, pClean, pPush := false, false, false
	var dump1 S = L(LL(nil), LL(nil))
	var dump2 S = L(LL(nil), LL(nil))
	algo := []string{"spray", "epidemic", "prophet", "binary_spray"}[(round+len(sc.pre)+sc.nth)%4]
	var core *routing.Core
	var err error
	if c08Guard(func() {
		core, err = routing.NewCore(dir, MustEID("dtn://n0/"), false, routing.RoutingConf{Algorithm: algo, SprayConf: routing.SprayConfig{Multiplicity: 3}, ProphetConf: routing.ProphetConfig{PInit: 0.75, Beta: 0.25, Gamma: 0.98, AgeInterval: "1h"}}, nil)
	}) || err != nil || core == nil {
		// tell a store that does not open from a Core that does not start
		if st, e := storage.NewStore(dir); e != nil {
			reopenOK = false
		} else {
			_ = st.Close()
		}
		coreOK = false
	}
	now2 := now
	if coreOK {
		core.VerifStopCron()
		dump1 = u.dump(core.VerifStore())
		pCheck = c08Guard(func() { core.VerifCheckPending() })
		now2 = time.Now().UnixNano() / 1000000
		pClean = c08Guard(func() { core.VerifCleanStore() })
		pPush = c08Guard(func() { _ = core.VerifStore().Push(u.bs[sc.repush].B) })
		dump2 = u.dump(core.VerifStore())
		core.Close()
	}
	o.Case("crash", u.sexp(), I64(now), LL(pre), sc.op.sexp(now), L(Sym(sc.point), I(sc.nth)), I(code),
		B(reopenOK), dump1, Sym(algo), B(coreOK), L(B(pCheck), B(pClean), B(pPush)), I64(now2), I(sc.repush), dump2)
}

func c08AnyOfKey(u *c08U, k int) int {
	for i, b := range u.bs {
		if b.K == k {
			return i
		}
	}
	panic("c08: key")
}

// hidden generator: the child process of a crash scenario
func genC08storechild(o *Out, r *Rng, thorough bool) {
	dir, opsFile, point := os.Getenv("VERIF_C08_DIR"), os.Getenv("VERIF_C08_OPS"), os.Getenv("VERIF_C08_POINT")
	if dir == "" {
		return
	}
	raw, err := ioutil.ReadFile(opsFile)
	if err != nil {
		os.Exit(3)
	}
	st, err := storage.NewStore(dir)
	if err != nil {
		os.Exit(3)
	}
	lines := strings.Split(string(raw), "\n")
	for n, line := range lines {
		if n == len(lines)-1 {
			os.Setenv("VERIF_CRASH", point) // arm the crash point for the operation under test only
		}
		f := strings.Split(line, ":")
		var b bpv7.Bundle
		if f[1] != "" {
			raw, _ := hex.DecodeString(f[1])
			if b, err = bpv7.ParseBundle(bytes.NewReader(raw)); err != nil {
				os.Exit(4)
			}
		}
		switch f[0] {
		case "push":
			if err := st.Push(b); err != nil {
				os.Exit(5)
			}
		case "del":
			if err := st.Delete(b.ID()); err != nil {
				os.Exit(5)
			}
		case "upd":
			bi, err := st.QueryId(b.ID())
			if err != nil {
				os.Exit(7)
			}
			var pr uint64
			var ex int64
			fmt.Sscan(f[3], &pr)
			fmt.Sscan(f[4], &ex)
			bi.Pending = f[2] == "true"
			bi.Properties["verif/tag"] = pr
			bi.Expires = time.Unix(0, ex*1000000).UTC()
			if err := st.Update(bi); err != nil {
				os.Exit(5)
			}
		case "sweep":
			st.DeleteExpired()
		}
	}
	if err := st.Close(); err != nil {
		os.Exit(6)
	}
	os.Exit(0)
}

// ---- concurrent fragment pushes ----

func c08Conc(o *Out, r *Rng, s int, stp **storage.Store, dir string) {
	u := c08Universe(r, 2, false, 2000+s, false)
	var fr []int
	for i, b := range u.bs {
		if b.Frag && b.K == 0 {
			fr = append(fr, i)
		}
	}
	if len(fr) < 2 {
		return
	}
	var pre []S
	if r.Bool() { // another record is already there
		for i, b := range u.bs {
			if b.K == 1 {
				so, _ := u.doOp(stp, dir, c08Op{kind: "push", i: i})
				pre = append(pre, so)
				break
			}
		}
	}
	if r.Intn(3) == 0 { // the record exists already with its first fragment
		so, _ := u.doOp(stp, dir, c08Op{kind: "push", i: fr[0]})
		pre = append(pre, so)
	}
	st := *stp
	var wg sync.WaitGroup
	start := make(chan struct{})
	errs := make([]bool, len(fr))
	for j, i := range fr {
		wg.Add(1)
		go func(j, i int) {
			defer wg.Done()
			<-start
			errs[j] = st.Push(u.bs[i].B) != nil
		}(j, i)
	}
	close(start)
	wg.Wait()
	d := u.dump(st)
	nerr := 0
	for _, e := range errs {
		if e {
			nerr++
		}
	}
	var pl []S
	for _, i := range fr {
		pl = append(pl, I(i))
	}
	o.Case("conc", u.sexp(), I64(time.Now().UnixNano()/1000000), LL(pre), LL(pl), I(nerr), d)
	u.cleanup(st)
}

func init() {
	register("C08store", genC08store)
	register("C08storechild", genC08storechild)
}
