package main

// C02builder: random call sequences on the real bpv7.BundleBuilder (Build interleaved, the builder
// used further afterwards), written with the parsed arguments so that the Gallina model
// (coq/Model/Builder.v) runs the same sequence. Observed: every Build result (error or the dump of
// the bundle), and at the end the dump of every earlier result again.
//
// case: (builderseq now (op ...) (final dump-or-err ...))

import (
	"bytes"
	"fmt"
	"time"

	"github.com/dtn7/dtn7-go/pkg/bpv7"
)

func bsEidArg(r *Rng) (arg interface{}, s S) {
	str := prodEidStrs[r.Intn(7)] // the valid ones
	if r.Intn(8) == 0 {
		str = prodEidStrs[r.Intn(len(prodEidStrs))]
	}
	e, err := bpv7.NewEndpointID(str)
	if err != nil {
		return str, L(Sym("n"))
	}
	if r.Bool() {
		return e, L(Sym("s"), Str(e.String()))
	}
	return str, L(Sym("s"), Str(e.String()))
}

// a duration argument together with the value bldrParseLifetime has to make of it
func bsDurArg(r *Rng) (arg interface{}, s S, desc string) {
	some := func(v uint64) S { return L(Sym("s"), U(v)) }
	none := L(Sym("n"))
	k := r.Intn(10)
	if (k == 2 || k == 4 || k == 7 || k == 9) && r.Intn(4) != 0 {
		k = []int{0, 1, 5, 6}[r.Intn(4)] // mostly valid arguments
	}
	switch k {
	case 0:
		v := r.Pick([]uint64{0, 1000, 3600000, 86400000, 1 << 40})
		return v, some(v), fmt.Sprintf("uint64 %d", v)
	case 1:
		v := []int{0, 5000, 7200000}[r.Intn(3)]
		return v, some(uint64(v)), fmt.Sprintf("int %d", v)
	case 2:
		return -3, none, "int -3"
	case 3:
		v := []float64{0, 23, 7200000}[r.Intn(3)]
		return v, some(uint64(v)), fmt.Sprintf("float64 %v", v)
	case 4:
		return float64(-1), none, "float64 -1"
	case 5:
		return "2h", some(7200000), "2h"
	case 6:
		return "90m", some(5400000), "90m"
	case 7:
		return []string{"-5m", "bogus", "0", ""}[r.Intn(4)], none, "bad string"
	case 8:
		return 100 * time.Hour, some(360000000), "100h duration"
	default:
		return []interface{}{true, nil, int64(5), []byte("x")}[r.Intn(4)], none, "unsupported type"
	}
}

func bsExt(r *Rng) bpv7.ExtensionBlock {
	switch r.Intn(6) {
	case 0:
		return bpv7.NewGenericExtensionBlock(r.Bytes(r.Intn(20)), []uint64{2, 11, 200, 255, 70000}[r.Intn(5)])
	case 1:
		return bpv7.NewBundleAgeBlock(uint64(r.Intn(5000)))
	case 2:
		return bpv7.NewHopCountBlock(uint8(r.Intn(256)))
	case 3:
		return bpv7.NewPreviousNodeBlock(randEID(r, true))
	case 4:
		return bpv7.NewPayloadBlock(r.Bytes(r.Intn(30)))
	default:
		return bpv7.NewBinarySprayBlock(uint64(r.Intn(9)))
	}
}

func bsResult(b bpv7.Bundle, err error) S {
	if err != nil {
		return L(Sym("err"))
	}
	return L(Sym("ok"), dumpBundle(&b))
}

func bsSeq(o *Out, r *Rng, steps int) {
	now := dtnNowMs()
	bl := bpv7.Builder()
	var ops []S
	var results []bpv7.Bundle
	var okIdx []int
	op := func(name string, f ...S) { ops = append(ops, L(append([]S{Sym(name)}, f...)...)) }
	build := func() {
		b, err := bl.Build()
		op("build", bsResult(b, err))
		if err == nil {
			results = append(results, b)
		}
		okIdx = append(okIdx, len(ops))
	}
	// a prefix that makes a successful Build likely
	if r.Intn(8) != 0 {
		bl.Source("dtn://src/")
		op("src", L(Sym("s"), Str("dtn://src/")))
	}
	if r.Intn(8) != 0 {
		bl.Destination("dtn://dst/app")
		op("dst", L(Sym("s"), Str("dtn://dst/app")))
	}
	if r.Intn(6) != 0 {
		t := time.Now().Add(-10 * time.Minute)
		bl.CreationTimestampTime(t)
		op("time", U(uint64(bpv7.DtnTimeFromTime(t))))
	}
	if r.Intn(6) != 0 {
		bl.Lifetime("24h")
		op("life", L(Sym("s"), U(86400000)))
	}
	if r.Intn(4) != 0 {
		d := r.Bytes(1 + r.Intn(10))
		bl.PayloadBlock(d)
		op("payload", X(d), U(0))
	}
	for i := 0; i < steps; i++ {
		switch r.Intn(20) {
		case 0:
			a, s := bsEidArg(r)
			bl.Source(a)
			op("src", s)
		case 1:
			a, s := bsEidArg(r)
			bl.Destination(a)
			op("dst", s)
		case 2:
			a, s := bsEidArg(r)
			bl.ReportTo(a)
			op("rpt", s)
		case 3:
			switch r.Intn(3) {
			case 0:
				bl.CreationTimestampEpoch()
				op("time", U(0))
			default:
				// far from the expiry instant of any lifetime used here, or expired by hours
				back := []time.Duration{time.Minute, 20 * time.Minute, 5 * time.Hour, 400 * time.Hour}[r.Intn(4)]
				t := time.Now().Add(-back)
				bl.CreationTimestampTime(t)
				op("time", U(uint64(bpv7.DtnTimeFromTime(t))))
			}
		case 4:
			a, s, _ := bsDurArg(r)
			// lifetimes that put the expiry instant within minutes of now make the verdict clock-dependent
			bl.Lifetime(a)
			op("life", s)
		case 5:
			f := prodBundleFlags(r)
			bl.BundleCtrlFlags(f)
			op("flags", U(uint64(f)))
		case 6:
			c := bpv7.CRCType(r.Intn(3))
			bl.CRC(c)
			op("crc", U(uint64(c)))
		case 7:
			lim := []int{0, 1, 23, 64, 255}[r.Intn(5)]
			f := prodBlockFlags(r)
			if r.Bool() {
				bl.HopCountBlock(lim)
			} else {
				bl.HopCountBlock(lim, f)
			}
			op("hop", U(uint64(lim)), U(uint64(f)))
		case 8:
			a, s, _ := bsDurArg(r)
			f := prodBlockFlags(r)
			if r.Bool() {
				bl.BundleAgeBlock(a)
			} else {
				bl.BundleAgeBlock(a, f)
			}
			op("age", s, U(uint64(f)))
		case 9:
			a, s := bsEidArg(r)
			bl.PreviousNodeBlock(a)
			op("prev", s, U(0))
		case 10:
			d := randPayload(r, false)
			f := prodBlockFlags(r)
			if r.Bool() {
				bl.PayloadBlock(d)
				f = 0
			} else {
				bl.PayloadBlock(d, f)
			}
			op("payload", X(d), U(uint64(f)))
		case 11, 12:
			eb := bsExt(r)
			f := prodBlockFlags(r)
			switch r.Intn(3) {
			case 0:
				bl.Canonical(eb)
				op("canon", U(0), U(eb.BlockTypeCode()), extS(eb))
			case 1:
				bl.Canonical(eb, f)
				op("canon", U(uint64(f)), U(eb.BlockTypeCode()), extS(eb))
			case 2:
				cb := bpv7.NewCanonicalBlock(uint64(r.Intn(5)), f, eb)
				cb.SetCRCType(bpv7.CRCType(r.Intn(3)))
				bl.Canonical(cb)
				op("canonblock", U(cb.BlockNumber), U(uint64(f)), U(uint64(cb.CRCType)), U(eb.BlockTypeCode()), extS(eb))
			}
		case 13:
			ref := randBundle(r, false)
			ar := bpv7.NewStatusReport(ref, bpv7.StatusInformationPos(r.Intn(4)), bpv7.StatusReportReason(r.Intn(10)), bpv7.DtnTimeNow())
			var buf bytes.Buffer
			if err := bpv7.GetAdministrativeRecordManager().WriteAdministrativeRecord(ar, &buf); err != nil {
				continue
			}
			bl.AdministrativeRecord(ar)
			op("admin", X(buf.Bytes()))
		default:
			build()
		}
	}
	build()
	var fin []S
	for i := range results {
		fin = append(fin, dumpBundle(&results[i]))
	}
	_ = okIdx
	o.Case("builderseq", U(now), LL(ops), LL(fin))
}

func genC02builder(o *Out, r *Rng, thorough bool) {
	registerAllBlocks()
	n := 1500
	if thorough {
		n = 30000
	}
	for i := 0; i < n; i++ {
		bsSeq(o, r, 2+r.Intn(14))
	}
}

func init() { register("C02builder", genC02builder) }
