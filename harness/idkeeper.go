package main

// C14 (area IdKeeper): locally originated bundles get distinct IDs, in the store and on the wire.
//
// A scenario is a list of operations on a real routing.Core (epidemic routing, mock CLAs):
// submissions of bundles whose (source, creation time) coincide - through Core.SendBundle, through
// an application agent's MessageSender channel (AgentManager path) and through status-report
// generation - sequentially and as concurrent groups, with peers appearing / disappearing, retry
// ticks, IdKeeper cleaning and restarts.  After every operation the harness writes what the
// implementation did: the bundles handed to the mock CLAs (ID and payload parsed from the bytes),
// the IdKeeper's counters and every store item (key, and ID + payload of the stored part file).
//
// Two submissions that coincide in (source, creation time) may differ in everything else: the
// variant number of a submission (ikVariant) selects report-to endpoint, destination, lifetime,
// control flags, extension blocks, payload length and CRC type.  Creation times cover the zero
// time, the scenario's millisecond, times ahead of the node's clock (1 ms ... 1 year: a client
// whose clock is ahead) and behind it (60 s ... 1 year); the "bnd" cases probe the cleaning
// threshold at the millisecond (see ikBoundary).

import (
	"crypto/ed25519"
	"fmt"
	"io/ioutil"
	"os"
	"sort"
	"strconv"
	"strings"
	"sync"
	"time"

	"github.com/dtn7/dtn7-go/pkg/agent"
	"github.com/dtn7/dtn7-go/pkg/bpv7"
	"github.com/dtn7/dtn7-go/pkg/routing"
)

var ikSrcs = []string{"dtn://n0/", "dtn://n0/app", "dtn://n0/app2", "dtn:none"}

const ikUnknownSrc = 99

func ikSrcIdx(e bpv7.EndpointID) int {
	s := e.String()
	for i, x := range ikSrcs {
		if x == s {
			return i
		}
	}
	return ikUnknownSrc
}

// time kinds of a submission
const (
	ikT0      = iota // the scenario's fixed millisecond
	ikEpoch          // zero creation time (+ bundle age block)
	ikT1             // a second fixed millisecond (T0 + 1)
	ikKept           // T0 - 60 s: younger than the cleaning threshold (86.4 s)
	ikOld            // T0 - 120 s: older than the cleaning threshold
	ikHalfH          // T0 - 30 min: "younger than an hour" (the comment), older than the threshold (the code)
	ikNow            // the clock at submission
	ikAhead1         // 1 ms ahead of the clock at its first use in the scenario (then the same value again)
	ikAhead2s        // T0 + 2 s
	ikAheadH         // T0 + 1 h
	ikAheadD         // T0 + 1 day + 1 ms
	ikAheadY         // T0 + 365 days
	ikPastD          // T0 - 1 day
	ikPastY          // T0 - 365 days
)

var ikAheadKinds = []int{ikAhead1, ikAhead2s, ikAheadH, ikAheadD, ikAheadY}

const ikDay = 86400000

type ikSpec struct {
	path string // sb | ag | rp
	src  int
	tk   int
	vr   int // variant of everything that is not (source, creation time); 0 = the plain bundle
}

// ---- variants -------------------------------------------------------------------------------
// vr = rt + 5*(dest + 3*(life + 3*(flags + 2*(blocks + 4*(pay + 3*crc)))))
var ikReportTos = []string{"", "dtn://n0/mon", "dtn://ops/rep", "dtn://n0/app2", "dtn:none"}
var ikDests = []string{"dtn://dest/x", "dtn://dest/y", "dtn://other/in"}

const ikVariants = 5 * 3 * 3 * 2 * 4 * 3 * 2

func ikVariant(r *Rng) int {
	switch r.Intn(4) {
	case 0:
		return 0
	case 1: // only the report-to endpoint differs
		return r.Intn(5)
	case 2: // one other dimension
		return []int{5, 10, 15, 30, 45, 90, 180, 270, 360, 720, 1080}[r.Intn(11)]
	}
	return r.Intn(ikVariants)
}

type ikOp struct {
	kind string // sub grp up down tick restart clean
	subs []ikSpec
	peer int
}

// ikAgent is an application agent with an unbuffered sender channel (so that the harness can
// tell when the AgentManager has finished handling a message, see sync()).
type ikAgent struct {
	eids []bpv7.EndpointID
	recv chan agent.Message
	send chan agent.Message
}

type ikMarker struct{}

func (ikMarker) Recipients() []bpv7.EndpointID { return nil }

func newIkAgent() *ikAgent {
	a := &ikAgent{eids: []bpv7.EndpointID{MustEID("dtn://n0/app"), MustEID("dtn://n0/app2")},
		recv: make(chan agent.Message, 64), send: make(chan agent.Message)}
	go func() {
		for range a.recv {
		}
	}()
	return a
}
func (a *ikAgent) Endpoints() []bpv7.EndpointID        { return a.eids }
func (a *ikAgent) MessageReceiver() chan agent.Message { return a.recv }
func (a *ikAgent) MessageSender() chan agent.Message   { return a.send }

// sync returns when the AgentManager's handler has finished every message sent before: the mux's
// forwarding goroutine takes the first marker only after the handler took the previous message,
// and takes the second only after the handler took the first marker, i.e. finished its work.
func (a *ikAgent) sync() {
	a.send <- ikMarker{}
	a.send <- ikMarker{}
}

type ikScen struct {
	n      *Node
	ag     *ikAgent
	t0     uint64
	nextT  int
	ref    map[string]int // referenced bundle ID (status reports) -> tid
	fields []S
	mark   int
	ahead1 uint64
}

func (x *ikScen) time(tk int) uint64 {
	if tk == ikAhead1 {
		if x.ahead1 == 0 {
			x.ahead1 = uint64(bpv7.DtnTimeNow()) + 1
		}
		return x.ahead1
	}
	return ikTime(x.t0, tk)
}

func ikTime(t0 uint64, tk int) uint64 {
	switch tk {
	case ikAhead2s:
		return t0 + 2000
	case ikAheadH:
		return t0 + 3600000
	case ikAheadD:
		return t0 + ikDay + 1
	case ikAheadY:
		return t0 + 365*ikDay
	case ikPastD:
		return t0 - ikDay
	case ikPastY:
		return t0 - 365*ikDay
	case ikT0:
		return t0
	case ikEpoch:
		return 0
	case ikT1:
		return t0 + 1
	case ikKept:
		return t0 - 60000
	case ikOld:
		return t0 - 120000
	case ikHalfH:
		return t0 - 30*60000
	}
	return uint64(bpv7.DtnTimeNow())
}

func ikBundle(src int, ts uint64, tid int, vr int) bpv7.Bundle {
	rt, v := vr%5, vr/5
	dest, v := v%3, v/3
	life, v := v%3, v/3
	flags, v := v%2, v/2
	blocks, v := v%4, v/4
	pay, v := v%3, v/3
	crc := v % 2
	lifetime := 4 * time.Hour
	if now := uint64(bpv7.DtnTimeNow()); ts != 0 && ts+3600000 < now {
		// a creation time far in the past: the bundle must not be expired already
		lifetime = time.Duration(now-ts)*time.Millisecond + 4*time.Hour
	}
	lifetime += time.Duration(life) * time.Hour
	fl := bpv7.MustNotFragmented
	if flags == 1 {
		fl |= bpv7.RequestUserApplicationAck
	}
	payload := "T" + strconv.Itoa(tid)
	if pay > 0 {
		payload += " " + strings.Repeat("x", []int{0, 100, 3000}[pay])
	}
	ct := bpv7.CRC32
	if crc == 1 {
		ct = bpv7.CRC16
	}
	bl := bpv7.Builder().CRC(ct).Source(ikSrcs[src]).Destination(ikDests[dest]).Lifetime(lifetime).
		BundleCtrlFlags(fl).PayloadBlock([]byte(payload))
	if rt > 0 {
		bl = bl.ReportTo(ikReportTos[rt])
	}
	if blocks&1 != 0 {
		bl = bl.HopCountBlock(30)
	}
	if blocks&2 != 0 {
		bl = bl.Canonical(bpv7.NewGenericExtensionBlock([]byte{7, 7, byte(tid)}, 222))
	}
	if ts == 0 {
		bl = bl.CreationTimestampEpoch().BundleAgeBlock(0)
	} else {
		bl = bl.CreationTimestampTime(bpv7.DtnTime(ts).Time())
	}
	b, err := bl.Build()
	if err != nil {
		panic(err)
	}
	return b
}

// ikRequest is a foreign bundle asking for a reception report to be sent elsewhere.
func ikRequest(tid int, two bool) bpv7.Bundle {
	bl := bpv7.Builder().CRC(bpv7.CRC32).Source(fmt.Sprintf("dtn://far%d/app", tid)).Destination("dtn://dest/x").
		ReportTo("dtn://rep/x").Lifetime(4 * time.Hour).BundleCtrlFlags(bpv7.StatusRequestReception).
		CreationTimestampNow().PayloadBlock([]byte("R" + strconv.Itoa(tid)))
	if two {
		// an unknown block that asks for the bundle's deletion: the node also reports the deletion
		// (second report, created right after the first)
		bl = bl.BundleCtrlFlags(bpv7.StatusRequestReception|bpv7.StatusRequestDeletion).
			Canonical(bpv7.NewGenericExtensionBlock([]byte{1, 2, 3}, 221), bpv7.DeleteBundle)
	}
	b, err := bl.Build()
	if err != nil {
		panic(err)
	}
	return b
}

// tidOf identifies a locally originated bundle by its content.
func (x *ikScen) tidOf(b *bpv7.Bundle) (int, bool) {
	if b.IsAdministrativeRecord() {
		ar, err := b.AdministrativeRecord()
		if err != nil {
			return 0, false
		}
		sr, ok := ar.(*bpv7.StatusReport)
		if !ok {
			return 0, false
		}
		sips := sr.StatusInformations()
		if len(sips) != 1 {
			return 0, false
		}
		tid, ok := x.ref[sr.RefBundle.String()+"/"+strconv.Itoa(int(sips[0]))]
		return tid, ok
	}
	pb, err := b.PayloadBlock()
	if err != nil {
		return 0, false
	}
	d := string(pb.Value.(*bpv7.PayloadBlock).Data())
	if !strings.HasPrefix(d, "T") {
		return 0, false
	}
	if i := strings.IndexByte(d, ' '); i >= 0 {
		d = d[:i] // padding of the payload-length variants
	}
	tid, err := strconv.Atoi(d[1:])
	return tid, err == nil
}

func ikPeerIdx(name string) int { i, _ := strconv.Atoi(strings.TrimPrefix(name, "p")); return i }

// sends since the last mark: (peer src t seq tid ok)
func (x *ikScen) sends() S {
	var l []S
	for _, r := range x.n.SendsSince(x.mark) {
		b, err := bpv7.ParseBundle(strings.NewReader(string(r.Raw)))
		if err != nil {
			l = append(l, L(I(ikPeerIdx(r.Peer)), Sym("unparsable")))
			continue
		}
		tid, ok := x.tidOf(&b)
		if !ok {
			continue // a forwarded foreign bundle
		}
		id := b.ID()
		l = append(l, L(I(ikPeerIdx(r.Peer)), I(ikSrcIdx(id.SourceNode)), U(uint64(id.Timestamp.DtnTime())), U(id.Timestamp.SequenceNumber()), I(tid), B(r.OK)))
	}
	x.mark = x.n.LastSendN()
	return LL(l)
}

type ikKRec struct {
	src  int
	t, c uint64
}

func (x *ikScen) keeperRecs() []ikKRec {
	src, tm, cnt := x.n.Core.VerifIdKeeperState()
	var ks []ikKRec
	for i := range src {
		ks = append(ks, ikKRec{ikSrcIdx(src[i]), uint64(tm[i]), cnt[i]})
	}
	sort.Slice(ks, func(i, j int) bool {
		if ks[i].src != ks[j].src {
			return ks[i].src < ks[j].src
		}
		return ks[i].t < ks[j].t
	})
	return ks
}

func (x *ikScen) keeper() S {
	var l []S
	for _, k := range x.keeperRecs() {
		l = append(l, L(I(k.src), U(k.t), U(k.c)))
	}
	return LL(l)
}

// store: every item whose part file holds a locally originated bundle: (src t seq | tid fsrc ft fseq)
func (x *ikScen) store() S {
	bis, err := x.n.Core.VerifStore().VerifAll()
	if err != nil {
		panic(err)
	}
	type rec struct {
		k [3]uint64
		s S
	}
	var rs []rec
	for _, bi := range bis {
		k := [3]uint64{uint64(ikSrcIdx(bi.BId.SourceNode)), uint64(bi.BId.Timestamp.DtnTime()), bi.BId.Timestamp.SequenceNumber()}
		if len(bi.Parts) != 1 {
			if k[0] != ikUnknownSrc {
				rs = append(rs, rec{k, L(U(k[0]), U(k[1]), U(k[2]), Sym("parts"), I(len(bi.Parts)))})
			}
			continue
		}
		b, err := bi.Parts[0].Load()
		if err != nil {
			if k[0] != ikUnknownSrc {
				rs = append(rs, rec{k, L(U(k[0]), U(k[1]), U(k[2]), Sym("unloadable"))})
			}
			continue
		}
		tid, ok := x.tidOf(&b)
		if !ok {
			continue
		}
		id := b.ID()
		rs = append(rs, rec{k, L(U(k[0]), U(k[1]), U(k[2]), I(tid), I(ikSrcIdx(id.SourceNode)), U(uint64(id.Timestamp.DtnTime())), U(id.Timestamp.SequenceNumber()))})
	}
	sort.Slice(rs, func(i, j int) bool {
		for q := 0; q < 3; q++ {
			if rs[i].k[q] != rs[j].k[q] {
				return rs[i].k[q] < rs[j].k[q]
			}
		}
		return SString(rs[i].s) < SString(rs[j].s)
	})
	var l []S
	for _, r := range rs {
		l = append(l, r.s)
	}
	return LL(l)
}

// closeAgents ends the agent's and the AgentManager's goroutines (Core.Close leaves the manager
// running, which would keep every closed Core and its store in memory).
func (x *ikScen) closeAgents() {
	close(x.ag.send)
	x.n.Core.VerifCloseAgents()
}

func (x *ikScen) openAgent() {
	x.ag = newIkAgent()
	x.n.Core.RegisterApplicationAgent(x.ag)
}

// one submission; the returned function (if any) has to be called after the concurrent phase
func (x *ikScen) start(tid int, sp ikSpec, ts uint64) (run func(), after func()) {
	switch sp.path {
	case "sb":
		b := ikBundle(sp.src, ts, tid, sp.vr)
		return func() { x.n.Core.SendBundle(&b) }, nil
	case "ag":
		b := ikBundle(sp.src, ts, tid, sp.vr)
		return func() { x.ag.send <- agent.BundleMessage{Bundle: b} }, x.ag.sync
	case "rd": // the deletion report of the reception started by the member before
		return nil, nil
	default: // rp, r2
		b := ikRequest(tid, sp.path == "r2")
		x.ref[b.ID().String()+"/"+strconv.Itoa(int(bpv7.ReceivedBundle))] = tid
		x.ref[b.ID().String()+"/"+strconv.Itoa(int(bpv7.DeletedBundle))] = tid + 1
		return func() { x.n.Core.VerifReceive(b, x.n.ID) }, nil
	}
}

// reportTimes finds the creation time the node gave to the status report `tid`: from the store
// or the wire; when the report is nowhere (lost), from the IdKeeper entry that appeared.
func (x *ikScen) reportTime(tid int, before []ikKRec) uint64 {
	if bis, err := x.n.Core.VerifStore().VerifAll(); err == nil {
		for _, bi := range bis {
			if len(bi.Parts) == 1 {
				if b, err := bi.Parts[0].Load(); err == nil {
					if t, ok := x.tidOf(&b); ok && t == tid {
						return uint64(b.PrimaryBlock.CreationTimestamp.DtnTime())
					}
				}
			}
		}
	}
	for _, r := range x.n.SendsSince(x.mark) {
		if b, err := bpv7.ParseBundle(strings.NewReader(string(r.Raw))); err == nil {
			if t, ok := x.tidOf(&b); ok && t == tid {
				return uint64(b.PrimaryBlock.CreationTimestamp.DtnTime())
			}
		}
	}
	old := map[[2]uint64]uint64{}
	for _, k := range before {
		old[[2]uint64{uint64(k.src), k.t}] = k.c + 1
	}
	var best uint64
	for _, k := range x.keeperRecs() {
		if k.src == 0 && old[[2]uint64{0, k.t}] != k.c+1 && k.t > best {
			best = k.t
		}
	}
	return best
}

func (x *ikScen) do(op ikOp) {
	n := x.n
	tail := func() []S { return []S{x.sends(), x.keeper(), x.store()} }
	switch op.kind {
	case "sub", "grp":
		before := x.keeperRecs()
		type m struct {
			tid   int
			sp    ikSpec
			ts    uint64
			run   func()
			after func()
		}
		var ms []m
		var specs []ikSpec
		for _, sp := range op.subs {
			specs = append(specs, sp)
			if sp.path == "r2" {
				specs = append(specs, ikSpec{path: "rd"})
			}
		}
		for _, sp := range specs {
			x.nextT++
			ts := x.time(sp.tk)
			if sp.path == "rp" || sp.path == "r2" || sp.path == "rd" {
				sp.src = 0
				sp.vr = 0
			}
			run, after := x.start(x.nextT, sp, ts)
			ms = append(ms, m{x.nextT, sp, ts, run, after})
		}
		n.Event++
		if len(op.subs) == 1 {
			ms[0].run()
		} else {
			var wg sync.WaitGroup
			gate := make(chan struct{})
			for i := range ms {
				if ms[i].run == nil {
					continue
				}
				wg.Add(1)
				go func(f func()) { defer wg.Done(); <-gate; f() }(ms[i].run)
			}
			close(gate)
			wg.Wait()
		}
		for i := range ms {
			if ms[i].after != nil {
				ms[i].after()
				break // one sync covers every message sent through the agent before
			}
		}
		now := uint64(bpv7.DtnTimeNow())
		var members []S
		for i := range ms {
			p := ms[i].sp.path
			if p == "rp" || p == "r2" || p == "rd" {
				ms[i].ts = x.reportTime(ms[i].tid, before)
				p = "rp"
			}
			members = append(members, L(Sym(p), I(ms[i].tid), I(ms[i].sp.src), U(ms[i].ts), I(ms[i].sp.vr)))
		}
		f := []S{Sym(op.kind), LL(members), U(now)}
		x.fields = append(x.fields, LL(append(f, tail()...)))
	case "up":
		n.PeerUp("p"+strconv.Itoa(op.peer), "dtn://p"+strconv.Itoa(op.peer)+"/")
		x.fields = append(x.fields, LL(append([]S{Sym("up"), I(op.peer)}, tail()...)))
	case "down":
		n.PeerDown("p" + strconv.Itoa(op.peer))
		x.fields = append(x.fields, LL(append([]S{Sym("down"), I(op.peer)}, tail()...)))
	case "tick":
		n.TickPending()
		x.fields = append(x.fields, LL(append([]S{Sym("tick")}, tail()...)))
	case "clean":
		n.Core.VerifIdKeeperClean()
		now := uint64(bpv7.DtnTimeNow())
		x.fields = append(x.fields, LL(append([]S{Sym("clean"), U(now)}, tail()...)))
	case "restart":
		x.closeAgents()
		n.Restart()
		x.openAgent()
		x.fields = append(x.fields, LL(append([]S{Sym("restart")}, tail()...)))
	}
}

func ikRunScen(o *Out, name string, ops []ikOp) {
	n := NewNode("dtn://n0/", routing.RoutingConf{Algorithm: "epidemic"})
	if strings.HasPrefix(name, "signed-") {
		// a node with a signing key: administrative records get a signature block before they are numbered
		n.Destroy()
		n = NewNodeSigned("dtn://n0/", routing.RoutingConf{Algorithm: "epidemic"}, ed25519.NewKeyFromSeed(make([]byte, ed25519.SeedSize)))
	}
	x := &ikScen{n: n, t0: uint64(bpv7.DtnTimeNow()), ref: map[string]int{}}
	x.openAgent()
	defer func() { x.closeAgents(); n.Destroy() }()
	x.fields = append(x.fields, Sym(name))
	for _, op := range ops {
		x.do(op)
	}
	o.Case("scen", x.fields...)
}

func sub1(path string, src, tk int) ikOp {
	return ikOp{kind: "sub", subs: []ikSpec{{path, src, tk, 0}}}
}
func subv(path string, src, tk, vr int) ikOp {
	return ikOp{kind: "sub", subs: []ikSpec{{path, src, tk, vr}}}
}
func grp(sp ...ikSpec) ikOp { return ikOp{kind: "grp", subs: sp} }
func up(p int) ikOp         { return ikOp{kind: "up", peer: p} }
func down(p int) ikOp       { return ikOp{kind: "down", peer: p} }

var (
	opTick    = ikOp{kind: "tick"}
	opClean   = ikOp{kind: "clean"}
	opRestart = ikOp{kind: "restart"}
)

// fastWorkDir puts the nodes' store directories on a memory file system when there is one (the
// stores are opened and closed hundreds of times; on a busy disk every open costs a second).
func fastWorkDir(prefix string) func() {
	if fi, err := os.Stat("/dev/shm"); err == nil && fi.IsDir() {
		if d, err := ioutil.TempDir("/dev/shm", prefix); err == nil {
			old := os.Getenv("VERIF_WORK")
			os.Setenv("VERIF_WORK", d)
			return func() { os.Setenv("VERIF_WORK", old); os.RemoveAll(d) }
		}
	}
	return func() {}
}

// ikBoundary probes the cleaning threshold at the millisecond.  Two bundles with a creation time
// `margin` ms younger than the threshold are submitted (numbers 0 and 1: the entry is not forgotten);
// then IdKeeper.clean is called in a loop with the clock read before and after each call.  A call
// whose two readings agree ran at a known clock c: the entry must have survived it iff
// ts >= c - 86400.  The last such call that kept the entry and the first that dropped it are
// written as ordinary "clean" operations (the driver replays them with the model's threshold);
// a third submission afterwards finds the entry forgotten.  An attempt whose submissions came too
// late (machine busy: the entry may already be gone, the outcome would depend on timing) is
// thrown away and repeated with a larger margin.
func ikBoundary(o *Out, r *Rng) {
	src := 1 + r.Intn(2)
	vrs := []int{ikVariant(r), ikVariant(r), ikVariant(r)}
	for _, margin := range []uint64{40, 150, 600, 2500} {
		if ikBoundaryTry(o, src, vrs, margin) {
			return
		}
	}
	o.Case("scen", Sym("bnd-skipped"))
}

func ikBoundaryTry(o *Out, src int, vrs []int, margin uint64) bool {
	const window = 60 * 60 * 24
	n := NewNode("dtn://n0/", routing.RoutingConf{Algorithm: "epidemic"})
	x := &ikScen{n: n, t0: uint64(bpv7.DtnTimeNow()), ref: map[string]int{}}
	x.openAgent()
	defer func() { x.closeAgents(); n.Destroy() }()
	ts := uint64(bpv7.DtnTimeNow()) - window + margin
	tail := func() []S { return []S{x.sends(), x.keeper(), x.store()} }
	has := func() bool {
		for _, k := range x.keeperRecs() {
			if k.src == src && k.t == ts {
				return true
			}
		}
		return false
	}
	submit := func(vr int) uint64 {
		x.nextT++
		b := ikBundle(src, ts, x.nextT, vr)
		n.Event++
		n.Core.SendBundle(&b)
		now := uint64(bpv7.DtnTimeNow())
		x.fields = append(x.fields, LL(append([]S{Sym("sub"), LL([]S{L(Sym("sb"), I(x.nextT), I(src), U(ts), I(vr))}), U(now)}, tail()...)))
		return now
	}
	x.fields = append(x.fields, Sym("bnd"))
	for i := 0; i < 2; i++ {
		if now := submit(vrs[i]); ts+window < now+5 {
			return false // too late (or too close to tell): the entry may be gone already
		}
	}
	// wait until shortly before the threshold reaches ts, then call clean back to back
	for uint64(bpv7.DtnTimeNow())+8 < ts+window {
		time.Sleep(time.Millisecond)
	}
	var lastKept, firstGone []S
	sharpKept, sharpGone := false, false
	deadline := time.Now().Add(20 * time.Second)
	for time.Now().Before(deadline) {
		c1 := uint64(bpv7.DtnTimeNow())
		n.Core.VerifIdKeeperClean()
		c2 := uint64(bpv7.DtnTimeNow())
		if c1 != c2 {
			continue // the clock moved during the call: not a reading
		}
		if has() {
			lastKept = append([]S{Sym("clean"), U(c1)}, tail()...)
			sharpKept = c1 == ts+window
		} else {
			firstGone = append([]S{Sym("clean"), U(c1)}, tail()...)
			sharpGone = c1 == ts+window+1
			break
		}
	}
	if firstGone == nil {
		if uint64(bpv7.DtnTimeNow()) < ts+window+1000 {
			return false // no reading at all (extremely busy machine)
		}
		// the entry outlives the threshold by more than a second: report what was seen
		firstGone = append([]S{Sym("clean"), U(uint64(bpv7.DtnTimeNow()))}, tail()...)
	}
	if lastKept != nil {
		x.fields = append(x.fields, LL(lastKept))
	}
	x.fields = append(x.fields, LL(firstGone))
	submit(vrs[2]) // forgotten: number 0 again (outside the hypothesis of C14_distinct)
	n.PeerUp("p1", "dtn://p1/")
	x.fields = append(x.fields, LL(append([]S{Sym("up"), I(1)}, tail()...)))
	if sharpKept && sharpGone {
		x.fields[0] = Sym("bnd-sharp")
	}
	o.Case("scen", x.fields...)
	return true
}

func genC14idkeeper(o *Out, r *Rng, thorough bool) {
	defer fastWorkDir("verif-c14-")()
	paths := []string{"sb", "ag", "rp", "r2"}
	// --- fixed scenarios (boundary cases) ---
	for _, p := range []string{"sb", "ag"} {
		for _, tk := range []int{ikT0, ikEpoch} {
			// three submissions in one millisecond, no peer; then a peer appears (retries)
			ikRunScen(o, "three-"+p, []ikOp{sub1(p, 1, tk), sub1(p, 1, tk), sub1(p, 1, tk), up(1), opTick})
			// with a peer connected from the start, then a second peer (retry of the stored copies)
			ikRunScen(o, "three-peer-"+p, []ikOp{up(1), sub1(p, 1, tk), sub1(p, 1, tk), sub1(p, 1, tk), up(2), opTick})
		}
	}
	// status reports: two receptions right after each other
	ikRunScen(o, "reports", []ikOp{sub1("rp", 0, ikNow), sub1("rp", 0, ikNow), sub1("rp", 0, ikNow), up(1), opTick})
	// a reception with an unknown block that asks for deletion: reception report and deletion report right after each other
	ikRunScen(o, "reports2", []ikOp{sub1("r2", 0, ikNow), sub1("r2", 0, ikNow), up(1), opTick})
	ikRunScen(o, "reports2-peer", []ikOp{up(1), sub1("r2", 0, ikNow), sub1("r2", 0, ikNow), up(2)})
	ikRunScen(o, "reports2-grp", []ikOp{grp(ikSpec{"r2", 0, ikNow, 0}, ikSpec{"r2", 0, ikNow, 0}, ikSpec{"rp", 0, ikNow, 0}), up(1)})
	ikRunScen(o, "reports-peer", []ikOp{up(1), sub1("rp", 0, ikNow), sub1("rp", 0, ikNow), sub1("rp", 0, ikNow), up(2)})
	// the same on a node that signs its administrative records
	ikRunScen(o, "signed-reports", []ikOp{sub1("rp", 0, ikNow), sub1("rp", 0, ikNow), sub1("rp", 0, ikNow), up(1), opTick})
	ikRunScen(o, "signed-reports2-grp", []ikOp{grp(ikSpec{"r2", 0, ikNow, 0}, ikSpec{"r2", 0, ikNow, 0}, ikSpec{"rp", 0, ikNow, 0}), up(1)})
	ikRunScen(o, "signed-reports-peer", []ikOp{up(1), sub1("rp", 0, ikNow), sub1("rp", 0, ikNow), sub1("rp", 0, ikNow), up(2)})
	// cleaning threshold: 60 s old is kept, 120 s and 30 min old entries are dropped (and their
	// counters start again at 0)
	ikRunScen(o, "clean", []ikOp{sub1("sb", 1, ikKept), sub1("sb", 1, ikOld), sub1("sb", 1, ikHalfH), sub1("sb", 1, ikEpoch), opClean,
		sub1("sb", 1, ikKept), sub1("sb", 1, ikEpoch), sub1("sb", 2, ikT0), opClean, up(1)})
	// restart: fresh timestamps are fine, the epoch time collides (known finding)
	ikRunScen(o, "restart-now", []ikOp{sub1("sb", 1, ikNow), opRestart, sub1("sb", 1, ikNow), up(1)})
	ikRunScen(o, "restart-epoch", []ikOp{sub1("sb", 1, ikEpoch), opRestart, sub1("sb", 1, ikEpoch), up(1)})
	// concurrent groups
	for k := 2; k <= 4; k++ {
		var sp []ikSpec
		for i := 0; i < k; i++ {
			sp = append(sp, ikSpec{"sb", 1, ikT0, 0})
		}
		ikRunScen(o, "grp-sb", []ikOp{grp(sp...), up(1), opTick})
		ikRunScen(o, "grp-sb-peer", []ikOp{up(1), grp(sp...), up(2)})
		sp[0].path = "ag"
		ikRunScen(o, "grp-mixed", []ikOp{grp(sp...), up(1)})
	}
	// bundles of one source and creation time that differ in everything else (report-to endpoint,
	// destination, lifetime, flags, blocks, payload length, CRC type): one counter, distinct numbers
	for _, p := range []string{"sb", "ag"} {
		for _, tk := range []int{ikT0, ikEpoch} {
			ikRunScen(o, "vary-rt-"+p, []ikOp{subv(p, 1, tk, 0), subv(p, 1, tk, 1), subv(p, 1, tk, 2), subv(p, 1, tk, 1), subv(p, 1, tk, 4), up(1), opTick})
			ikRunScen(o, "vary-rt-peer-"+p, []ikOp{up(1), subv(p, 1, tk, 3), subv(p, 1, tk, 0), subv(p, 1, tk, 2), up(2), opTick})
			ikRunScen(o, "vary-other-"+p, []ikOp{subv(p, 1, tk, 5), subv(p, 1, tk, 15), subv(p, 1, tk, 45), subv(p, 1, tk, 90), subv(p, 1, tk, 180),
				subv(p, 1, tk, 360), subv(p, 1, tk, 1080), up(1), opTick})
			ikRunScen(o, "vary-all-"+p, []ikOp{up(1), subv(p, 1, tk, ikVariant(r)), subv(p, 1, tk, ikVariant(r)), subv(p, 1, tk, ikVariant(r)), subv(p, 1, tk, ikVariant(r)), up(2), opTick})
		}
	}
	ikRunScen(o, "vary-grp", []ikOp{grp(ikSpec{"sb", 1, ikT0, 0}, ikSpec{"sb", 1, ikT0, 1}, ikSpec{"ag", 1, ikT0, 2}, ikSpec{"sb", 1, ikT0, 1}), up(1), opTick})
	ikRunScen(o, "vary-grp-epoch", []ikOp{up(1), grp(ikSpec{"sb", 2, ikEpoch, 2}, ikSpec{"sb", 2, ikEpoch, 0}, ikSpec{"sb", 2, ikEpoch, 4}), up(2)})
	// creation times ahead of the node's clock (a client whose clock is ahead by 1 ms ... 1 year)
	for _, tk := range ikAheadKinds {
		for _, p := range []string{"sb", "ag"} {
			ikRunScen(o, "ahead-"+p, []ikOp{sub1(p, 1, tk), sub1(p, 1, tk), subv(p, 1, tk, 1), up(1), opTick})
			ikRunScen(o, "ahead-peer-"+p, []ikOp{up(1), sub1(p, 1, tk), opClean, sub1(p, 1, tk), sub1(p, 2, tk), subv(p, 1, tk, 2), up(2), opTick})
		}
		ikRunScen(o, "ahead-grp", []ikOp{grp(ikSpec{"sb", 1, tk, 0}, ikSpec{"sb", 1, tk, 0}, ikSpec{"ag", 1, tk, 1}), opClean, sub1("sb", 1, tk), up(1), opTick})
	}
	// far in the past: forgotten at once, every submission gets number 0 (outside the hypothesis, tagged)
	ikRunScen(o, "past", []ikOp{sub1("sb", 1, ikPastD), sub1("sb", 1, ikPastD), sub1("sb", 1, ikPastY), sub1("sb", 1, ikPastY), up(1)})
	// the cleaning threshold at the millisecond
	nb := 3
	if thorough {
		nb = 25
	}
	for i := 0; i < nb; i++ {
		ikBoundary(o, r)
	}
	// --- random scenarios ---
	nrand := 100
	if thorough {
		nrand = 1500
	}
	for c := 0; c < nrand; c++ {
		var ops []ikOp
		peers := map[int]bool{}
		restarted := false
		ln := 3 + r.Intn(8)
		mainSrc := r.Intn(len(ikSrcs))
		mainTk := []int{ikT0, ikT0, ikEpoch, ikKept, ikAhead1, ikAhead2s, ikAheadH, ikAheadD, ikAheadY}[r.Intn(9)]
		spec := func() ikSpec {
			sp := ikSpec{path: paths[r.Intn(4)], src: mainSrc, tk: mainTk}
			if r.Intn(4) == 0 {
				sp.src = r.Intn(len(ikSrcs))
			}
			if r.Intn(4) == 0 {
				sp.tk = []int{ikT0, ikEpoch, ikT1, ikKept, ikOld, ikHalfH, ikNow, ikAhead1, ikAhead2s, ikAheadH, ikAheadD, ikAheadY, ikPastD, ikPastY}[r.Intn(14)]
			}
			if sp.path == "sb" || sp.path == "ag" {
				sp.vr = ikVariant(r)
			}
			if sp.path == "ag" && (sp.src == 0 || sp.src == 3) && r.Bool() {
				sp.src = 1
			}
			if restarted && sp.tk != ikNow && sp.tk != ikEpoch && sp.path != "rp" && sp.path != "r2" {
				// after a restart only the clock and the zero time are used (a re-used explicit
				// timestamp across a restart is the same finding as the epoch one; it is reported
				// once, under the epoch key)
				sp.tk = ikNow
			}
			return sp
		}
		for i := 0; i < ln; i++ {
			switch q := r.Intn(20); {
			case q < 9:
				ops = append(ops, ikOp{kind: "sub", subs: []ikSpec{spec()}})
			case q < 13:
				k := 2 + r.Intn(3)
				var sp []ikSpec
				for j := 0; j < k; j++ {
					m := spec()
					if m.tk == ikOld || m.tk == ikHalfH || m.tk == ikPastD || m.tk == ikPastY {
						// a stale creation time inside a concurrent group would make the outcome
						// depend on whether a cleaning falls between the two counter steps
						m.tk = ikKept
					}
					sp = append(sp, m)
				}
				ops = append(ops, ikOp{kind: "grp", subs: sp})
			case q < 15:
				p := 1 + r.Intn(3)
				if peers[p] {
					ops = append(ops, down(p))
					delete(peers, p)
				} else {
					ops = append(ops, up(p))
					peers[p] = true
				}
			case q < 17:
				ops = append(ops, opTick)
			case q < 19:
				ops = append(ops, opClean)
			default:
				if r.Intn(3) == 0 {
					ops = append(ops, opRestart)
					peers = map[int]bool{}
					restarted = true
				} else {
					ops = append(ops, opTick)
				}
			}
		}
		ops = append(ops, up(4), opTick)
		ikRunScen(o, "rand", ops)
	}
}

func init() { register("C14idkeeper", genC14idkeeper) }
