#!/bin/sh
# setup_cmd: builds the whole framework offline from files on disk.
set -e
cd "$(dirname "$0")"
export GOFLAGS=-mod=mod GOPROXY=off GOSUMDB=off GOTOOLCHAIN=local CGO_ENABLED=0
mkdir -p bin work evidence replays
(cd tools/goconsts && go build -o ../../bin/goconsts .)
./bin/goconsts /repo tools/goconsts/funcs.txt > coq/gen/Consts.v.new && mv coq/gen/Consts.v.new coq/gen/Consts.v
(cd coq && coq_makefile -f _CoqProject -o Makefile && timeout 7200 make -j16)
(cd ocaml && ./build.sh)
cp /repo/go.sum harness/go.sum
(cd harness && go build -tags verif -o ../bin/verifharness .)
echo setup ok
