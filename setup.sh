#!/bin/sh
# setup_cmd: builds the whole framework offline from files on disk.
set -e
cd "$(dirname "$0")"
REPO="${VERIF_REPO:-/repo}"
export GOFLAGS=-mod=mod GOPROXY=off GOSUMDB=off GOTOOLCHAIN=local CGO_ENABLED=0
mkdir -p bin work evidence replays
python3 lib/gen.py
(cd tools/goconsts && go build -o ../../bin/goconsts .)
./bin/goconsts "$REPO" tools/goconsts/funcs.txt > coq/gen/Consts.v.new && mv coq/gen/Consts.v.new coq/gen/Consts.v
(cd coq && coq_makefile -f _CoqProject -o Makefile && timeout 7200 make -j16)
(cd ocaml && ./build.sh)
cp "$REPO/go.sum" harness/go.sum
printf 'module verifharness\n\ngo 1.13\n\nrequire github.com/dtn7/dtn7-go v0.0.0\n\nreplace github.com/dtn7/dtn7-go => %s\n' "$REPO" > harness/go.mod
(cd harness && go build -tags verif -o ../bin/verifharness .)
echo setup ok
