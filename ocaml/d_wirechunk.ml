(* driver glue for generator C17chunk: stream decoders of C17 behind readers that deliver the bytes in
   pieces (harness/wirechunk.go).  The file name sorts after d_tcpclmsg.ml / d_auxcbor.ml (glob order of
   build.sh).

   What is read from a bytes.Reader is judged as in the "stream" cases of C17tcpclmsg / C17auxcbor
   (model + the values written); every reader through which something else is read is a violation of
   "decoding consumes exactly the bytes the encoder produced": the bytes are the same. *)
open Model
open Conv
open Sexp
open Verdict

let mode_name m = match lst m with Atom n :: _ -> n | _ -> raise (Bad "reader mode")
let short s = if String.length s > 200 then String.sub s 0 200 ^ "..." else s

(* ---- TCPCLv4 ---- *)

(* result of one reader: (((msg offset)...) end) *)
let tres s = match lst s with
  | [msgs; oend] -> (List.map (fun m -> match lst m with [v; p] -> (v, s_int p) | _ -> raise (Bad "msg entry")) (lst msgs), s_sym oend)
  | _ -> raise (Bad "stream result")

let describe_tres total (msgs, oend) =
  let last = List.fold_left (fun _ (_, p) -> p) 0 msgs in
  Printf.sprintf "%d messages, end %s, %d of %d bytes consumed by them" (List.length msgs) oend last total

let h_tstream = function
  | [smode; vals; bs; plain; nmodes; devs] ->
    let total = List.length (s_bytes bs) in
    let vals' = List.map (fun v -> match lst v with [m; l] -> (m, s_int l) | _ -> raise (Bad "stream value")) (lst vals) in
    let (pm, pend) = tres plain in
    let r = ref [] in
    (* from a bytes.Reader: the existing judge (model, values written) *)
    let lastpos = List.fold_left (fun _ (_, p) -> p) 0 pm in
    let left = if pend = "eof" then 0 else total - lastpos in
    let base = D_tcpclmsg.stream [smode; List (List.map fst vals'); bs; Atom "0"; List (List.map fst pm); Atom pend; Atom (string_of_int left)] in
    r := List.filter (function Ok_ _ -> false | _ -> true) base;
    (* offsets behind the messages: each message takes exactly its encoding *)
    let rec offsets acc vs ms = match vs, ms with
      | (_, l) :: vs, (_, p) :: ms ->
        if p <> acc + l then
          r := Propfail ("tcpclmsg.stream.misaligned", Printf.sprintf "a message of %d bytes at offset %d leaves the reader at offset %d" l acc p) :: !r
        else offsets (acc + l) vs ms
      | _ -> () in
    offsets 0 vals' pm;
    (* through the chunking readers *)
    List.iter (fun d -> match lst d with
        | [mode; res] ->
          let res' = tres res in
          r := Propfail ("tcpclmsg.chunked." ^ mode_name mode,
                         Printf.sprintf "through reader %s: %s; from a bytes.Reader: %s" (Sexp.to_string mode)
                           (describe_tres total res') (describe_tres total (pm, pend))) :: !r
        | _ -> raise (Bad "deviation")) (lst devs);
    if !r = [] then [Ok_ ["tstream"; s_sym smode; pend; Printf.sprintf "n=%d" (min (List.length pm) 8);
                          (if total > 4096 then "long" else "short"); Printf.sprintf "readers>=%d" (s_int nmodes / 100 * 100)]] else !r
  | _ -> raise (Bad "tstream case")

(* ---- CBOR auxiliary formats ---- *)

let h_astream = function
  | [now; vals; bs; plain; nmodes; devs] ->
    let (back, rem) = match lst plain with [b; r] -> (b, r) | _ -> raise (Bad "astream result") in
    let base = D_auxcbor.h_stream [now; vals; bs; back; rem] in
    let r = ref (List.filter (function Ok_ _ -> false | _ -> true) base) in
    List.iter (fun d -> match lst d with
        | [mode; res] ->
          r := Propfail ("aux.chunked." ^ mode_name mode,
                         Printf.sprintf "through reader %s the stream reads as %s; from a bytes.Reader as %s" (Sexp.to_string mode)
                           (short (Sexp.to_string res)) (short (Sexp.to_string plain))) :: !r
        | _ -> raise (Bad "deviation")) (lst devs);
    if !r = [] then [Ok_ ["astream"; Printf.sprintf "len%d" (min 8 (List.length (lst vals))); Printf.sprintf "readers>=%d" (s_int nmodes / 100 * 100)]] else !r
  | _ -> raise (Bad "astream case")

let () =
  register "C17chunk" "tstream" h_tstream;
  register "C17chunk" "astream" h_astream
