open Model
open Conv
open Sexp
open Verdict

(* C04bundle: (case n dec <kind> now bytes <result> <alloc>) *)
let dec = function
  | [kind; now; bs; res; alloc] ->
    let kind = s_sym kind and res = s_sym res in
    let bytes = s_bytes bs in
    let len = List.length bytes in
    let alloc = s_int alloc in
    let r = ref [] in
    (match res with
     | "panic" -> r := Propfail ("decoder.panic.bundle", "ParseBundle / AdministrativeRecord panicked") :: !r
     | "died" | "died-before" -> r := Propfail ("decoder.died.bundle", "the decoding process died (fatal error / out of memory)") :: !r
     | "timeout" -> r := Propfail ("decoder.hang.bundle", "decoding did not return within 20 s") :: !r
     | _ -> ());
    if alloc > 64 * len + 4 * 1048576 then
      r := Propfail ("decoder.alloc.bundle", Printf.sprintf "%d bytes allocated for %d input bytes" alloc len) :: !r;
    let m = dec_bundle (s_n now) bytes in
    (match res, m with
     | ("ok" | "ok-adminerr"), None -> r := Mismatch "implementation accepts, model rejects" :: !r
     | "err", Some _ -> r := Mismatch "model accepts, implementation rejects" :: !r
     | _ -> ());
    if !r = [] then [Ok_ [kind; res]] else !r
  | _ -> raise (Bad "dec case")

let () = register "C04bundle" "dec" dec
