open Model
open Conv
open Sexp
open Verdict

(* C04bundle: (case n dec <kind> now bytes <result> <alloc>) *)
let dec = function
  | [kind; now; bs; res; alloc] ->
    let kind = s_sym kind and res = s_sym res in
    let bytes = s_bytes bs in
    let len = List.length bytes in
    let alloc = s_int alloc in
    let r = ref [] in
    (match res with
     | "panic" -> r := Propfail ("decoder.panic.bundle", "ParseBundle / AdministrativeRecord panicked") :: !r
     | "died" | "died-before" -> r := Propfail ("decoder.died.bundle", "the decoding process died (fatal error / out of memory)") :: !r
     | "timeout" -> r := Propfail ("decoder.hang.bundle", "decoding did not return within 20 s") :: !r
     | _ -> ());
    if alloc > 64 * len + 4 * 1048576 then
      r := Propfail ("decoder.alloc.bundle", Printf.sprintf "%d bytes allocated for %d input bytes" alloc len) :: !r;
    let now = s_n now in
    let m = dec_bundle now bytes in
    (* the child decodes later than [now] was read: a verdict that changes within +-2 minutes of
       [now] depends on the expiry instant and is not compared (guard band, DESIGN.md section 7) *)
    let later = dec_bundle (N.add now (n_of_int 120000)) bytes in
    let earlier = dec_bundle (N.sub now (n_of_int 120000)) bytes in
    let stable = ((m = None) = (later = None)) && ((m = None) = (earlier = None)) in
    let tag = ref res in
    if stable then
      (match res, m with
       | ("ok" | "ok-adminerr"), None -> r := Mismatch "implementation accepts, model rejects" :: !r
       | "err", Some _ -> r := Mismatch "model accepts, implementation rejects" :: !r
       | _ -> ())
    else tag := "near-expiry-skipped";
    if !r = [] then [Ok_ [kind; !tag]] else !r
  | _ -> raise (Bad "dec case")

let () = register "C04bundle" "dec" dec
