(* C12 (BBC part): fragment trains and reception under faults.
   Correspondence: extracted out_fragments / handle_fragment against the implementation, step by step.
   Property checker: judges what the implementation did against the property text:
     no fault  => the bundle is delivered exactly once, identical, and no failure is signalled;
     fault (within the locality bound) => a failure fragment for that transmission id is emitted;
     always    => every delivered bundle is one that was sent. *)
open Model
open Conv
open Sexp
open Verdict

let frag_of_s = D_bbc.frag_of_s
let show_frag = D_bbc.show_frag
let ni = n_of_int

let frags_eq a b = List.length a = List.length b && List.for_all2 fragment_eqb a b

(* the property's statement about one outgoing train, evaluated on the implementation's fragments *)
let check_train ~(tid : n option) ~mtu ~blob (fs : fragment list) : verdict list =
  let r = ref [] in
  let pf k d = r := Propfail (k, d) :: !r in
  let n = List.length fs in
  if n = 0 then pf "bbc.train.empty" "no fragment for a non-empty blob"
  else begin
    List.iteri (fun i f ->
        if 2 + List.length f.f_payload > mtu then pf "bbc.train.fragment-exceeds-mtu" (Printf.sprintf "fragment %d has %d bytes, mtu %d" i (2 + List.length f.f_payload) mtu);
        if int_of_n (f_seq f) <> (i + 1) mod 16 then pf "bbc.train.sequence" (Printf.sprintf "fragment %d carries sequence number %d" i (int_of_n (f_seq f)));
        if f_start f <> (i = 0) || f_end f <> (i = n - 1) || f_fail f then pf "bbc.train.marks" (Printf.sprintf "fragment %d of %d: start/end/fail marks wrong" i n);
        (match tid with Some t -> if f.f_tid <> t then pf "bbc.train.tid" "transmission id changes inside a train" | None -> ());
        if i > 0 && f.f_tid <> (List.hd fs).f_tid then pf "bbc.train.tid" "transmission id changes inside a train") fs;
    if List.concat (List.map (fun f -> f.f_payload) fs) <> blob then pf "bbc.train.reassembly" "payloads do not concatenate to the blob"
  end;
  !r

let model_train tid mtu blob fs what : verdict list =
  if mtu < 3 then [] else
  match out_fragments tid (nat_of_int (mtu - 2)) blob with
  | None -> [Mismatch (what ^ ": model has no train")]
  | Some mfs ->
    if frags_eq mfs fs then
      (* in-order reception of the implementation's train by the model's connector *)
      (match handle_all (fun _ -> true) [] fs with
       | ([], [OutBlob (t, b)]) when t = tid && b = blob -> []
       | _ -> [Mismatch (what ^ ": model connector does not rebuild the blob from the train")])
    else [Mismatch (Printf.sprintf "%s: train differs (model %d fragments, impl %d)" what (List.length mfs) (List.length fs))]

let train = function
  | [tid; mtu; blob; err; frags] ->
    let tid = s_n tid and mtu = s_int mtu and blob = s_bytes blob in
    let fs = List.map frag_of_s (lst frags) in
    if s_bool err then [Propfail ("bbc.train.error", "creating the train errored")]
    else
      let r = check_train ~tid:(Some tid) ~mtu ~blob fs @ model_train tid mtu blob fs "train" in
      if r = [] then [Ok_ ["train"; (if List.length fs = 1 then "single" else if List.length fs > 16 then "wraps" else "multi")]] else r
  | _ -> raise (Bad "train case")

let send = function
  | [mtu; sends; sf] ->
    let mtu = s_int mtu in
    let r = ref [] in
    let prev = ref None in
    List.iter (fun s -> match lst s with
        | [blob; err; ok; frags] ->
          let blob = s_bytes blob in
          let fs = List.map frag_of_s (lst frags) in
          if s_bool err || not (s_bool ok) then r := Propfail ("bbc.send.error", "Send of a bundle errored or its fragments did not reach the modem") :: !r
          else begin
            match fs with
            | [] -> r := Propfail ("bbc.train.empty", "Send produced no fragment") :: !r
            | f0 :: _ ->
              (match !prev with
               | Some p when next_tid p <> f0.f_tid -> r := Mismatch "transmission ids of consecutive Sends are not consecutive" :: !r
               | _ -> ());
              prev := Some f0.f_tid;
              r := check_train ~tid:None ~mtu ~blob fs @ model_train f0.f_tid mtu blob fs "send" @ !r
          end
        | _ -> raise (Bad "send entry")) (lst sends);
    (match lst sf with
     | [] -> ()
     | [cur; err_other; ok_other; fo; err_own; nfw] ->
       let fo = List.map frag_of_s (lst fo) in
       if s_bool err_other || not (s_bool ok_other) then
         r := Propfail ("bbc.send.spurious-failure", "a failure fragment for another transmission id made Send fail") :: !r
       else if (match fo with f :: _ -> f.f_tid <> next_tid (s_n cur) | [] -> true) then r := Mismatch "sendfail: unexpected id" :: !r;
       (* the train sent while the foreign report was pending must be a complete train *)
       if not (s_bool err_other) && s_bool ok_other then begin
         let n = List.length fo in
         List.iteri (fun i f ->
             if int_of_n (f_seq f) <> (i + 1) mod 16 then r := Propfail ("bbc.train.sequence", Printf.sprintf "Send with a foreign failure report pending: fragment %d carries sequence number %d" i (int_of_n (f_seq f))) :: !r;
             if f_start f <> (i = 0) || f_end f <> (i = n - 1) || f_fail f then
               r := Propfail ("bbc.train.marks", Printf.sprintf "Send with a foreign failure report pending: fragment %d of %d: start/end/fail marks wrong" i n) :: !r) fo
       end;
       if not (s_bool err_own) || s_int nfw <> 0 then
         r := Propfail ("bbc.send.failure-ignored", "a peer's failure fragment for the transmission did not make Send return an error") :: !r
     | _ -> raise (Bad "sendfail entry"));
    if !r = [] then [Ok_ ["send"]] else !r
  | _ -> raise (Bad "send case")

(* ---- Connector.Send while failure reports are pending / arrive in the middle of the train ---- *)
let rec frags_prefix a b = match a, b with
  | [], _ -> true
  | x :: a, y :: b -> fragment_eqb x y && frags_prefix a b
  | _ :: _, [] -> false

let sendpend = function
  | [_; Atom "probe-failed"] -> [Propfail ("bbc.send.error", "the first Send on a fresh Connector errored or produced no fragment")]
  | [mtu; Atom "ok"; timeout; sends] ->
    let mtu = s_int mtu in
    let r = ref [] and tags = ref ["sendpend"] in
    let tag t = if not (List.mem t !tags) then tags := t :: !tags in
    if s_bool timeout then r := Mismatch "harness: a Send did not end" :: !r;
    List.iteri (fun i s -> match lst s with
        | blob :: tid :: pre :: mid :: err :: frags :: _left :: rest ->
          let saw_end = match rest with [e] -> e | _ -> Atom "0" in
          let blob = s_bytes blob and tid = s_n tid and err = s_bool err in
          let pre = List.map s_n (lst pre) and mid = List.map s_n (lst mid) in
          let fs = List.map frag_of_s (lst frags) in
          let own_pre = List.mem tid pre and own_mid = List.mem tid mid in
          let what = Printf.sprintf "Send %d (id %d, %d reports queued before, %d injected in the middle)" (i + 1) (int_of_n tid) (List.length pre) (List.length mid) in
          let add k d = r := Propfail (k, what ^ ": " ^ d) :: !r in
          if pre <> [] then tag (if own_pre then "own-report-queued" else "other-reports-queued");
          if mid <> [] then tag (if own_mid then "own-report-mid-train" else "other-reports-mid-train");
          if List.length pre >= 64 then tag "report-queue-full";
          if own_pre || own_mid then begin
            if not err then add "bbc.send.failure-ignored" "a peer's failure fragment for the transmission did not make Send return an error";
            if s_bool saw_end || List.exists (fun f -> f_end f) fs then add "bbc.send.failure-ignored" "the train was completed although the peer had reported its failure";
            if own_pre && fs <> [] then r := Mismatch (what ^ ": fragments were emitted although the failure report was queued before the Send") :: !r;
            (match out_fragments tid (nat_of_int (mtu - 2)) blob with
             | Some mfs when frags_prefix fs mfs -> ()
             | _ -> add "bbc.train.sequence" "the fragments emitted before the abort are not a prefix of the train")
          end else begin
            if err then add "bbc.send.spurious-failure" "failure reports for other transmission ids made Send fail"
            else begin
              (* one verdict per failing class is enough *)
              let seen = ref [] in
              let vs = List.filter (function
                  | Propfail (k, _) -> if List.mem k !seen then false else (seen := k :: !seen; true)
                  | _ -> true) (List.rev (check_train ~tid:(Some tid) ~mtu ~blob fs) @ model_train tid mtu blob fs "sendpend") in
              r := List.map (function Propfail (k, d) -> Propfail (k, what ^ ": " ^ d) | v -> v) vs @ !r
            end
          end
        | _ -> raise (Bad "sendpend entry")) (lst sends);
    if !r = [] then [Ok_ (List.rev !tags)] else List.rev !r
  | _ -> raise (Bad "sendpend case")

(* ---- reception ---- *)
type tr = { tid : n; blob : n list; bndl : n list; frags : fragment array }

let near a b = a <= b + 14 && b <= a + 16

let rec is_prefix_chain l i = match l with [] -> true | x :: l -> x = i && is_prefix_chain l (i + 1)

(* split a received index list into complete copies 0..n-1 and a remainder *)
let rec strip_copies l n copies =
  let rec take l i = if i = n then Some l else match l with x :: l when x = i -> take l (i + 1) | _ -> None in
  match take l 0 with
  | Some rest when n > 0 -> strip_copies rest n (copies + 1)
  | _ -> (copies, l)

(* shared by the kinds rx / hist / busy: the trains of a case; [cls] only in histories *)
type step = { herr : bool; ff : fragment list; ft : n list; dl : n list option list; op : n list }

let parse_trains trains =
  Array.of_list (List.map (fun t -> match lst t with
      | [tid; blob; bndl; frags] | [tid; blob; bndl; frags; _] ->
        { tid = s_n tid; blob = s_bytes blob; bndl = s_bytes bndl; frags = Array.of_list (List.map frag_of_s (lst frags)) }
      | _ -> raise (Bad "train entry")) (lst trains))
let parse_classes trains =
  Array.of_list (List.map (fun t -> match lst t with [_; _; _; _; c] -> s_sym c | _ -> "") (lst trains))
let parse_refs refs = List.map (fun p -> match lst p with [k; i] -> (s_int k, s_int i) | _ -> raise (Bad "ref")) (lst refs)
let parse_delivered dl =
  List.map (fun x -> match x with Atom a when String.length a > 0 && a.[0] = 'x' -> Some (s_bytes x) | _ -> None) (lst dl)
let parse_steps steps = List.map (fun s -> match lst s with
    | [herr; ff; ft; dl; op] ->
      { herr = s_bool herr; ff = List.map frag_of_s (lst ff); ft = List.map s_n (lst ft);
        dl = parse_delivered dl; op = List.map s_n (lst op) }
    | _ -> raise (Bad "step")) (lst steps)

(* the decoder oracle of the model: the blobs of the case's trains that decode (a train whose blob
   does not decode carries an empty bundle) *)
let decodes_of ts =
  let blobs = List.filter_map (fun t -> if t.bndl <> [] then Some t.blob else None) (Array.to_list ts) in
  fun b -> List.mem b blobs
let bundle_of_blob ts b =
  let rec go i = if i >= Array.length ts then None else if ts.(i).blob = b && ts.(i).bndl <> [] then Some ts.(i).bndl else go (i + 1) in go 0
let frag_of_ref ts (k, i) = if i = 0 then new_fragment ts.(k).tid N0 false false true [] else ts.(k).frags.(i - 1)

(* correspondence, step by step: the extracted connector against the implementation's observations *)
let correspond ts refs (steps : step list) : verdict list =
  let decodes = decodes_of ts in
  let res = ref [] in
  let mism d = if List.length !res < 5 then res := Mismatch d :: !res in
  let tb = ref [] in
  let stepno = ref 0 in
  List.iter2 (fun (k, i) st ->
      incr stepno;
      let f = frag_of_ref ts (k, i) in
      let (tb', outs) = handle_fragment decodes !tb f in
      tb := tb';
      let mff = List.filter_map (function OutFailFrag f -> Some f | _ -> None) outs in
      let mft = List.filter_map (function OutFailedTid t -> Some t | _ -> None) outs in
      let mdl = List.filter_map (function OutBlob (_, b) -> Some (bundle_of_blob ts b) | _ -> None) outs in
      let mop = List.sort compare (List.map (fun (t, _) -> int_of_n t) tb') in
      let at = Printf.sprintf "step %d (train %d fragment %d): " !stepno k (i - 1) in
      if not (frags_eq mff st.ff) then mism (at ^ "failure fragments differ: model [" ^ String.concat " " (List.map show_frag mff) ^ "] impl [" ^ String.concat " " (List.map show_frag st.ff) ^ "]");
      if mft <> st.ft then mism (at ^ "failed transmission ids differ");
      if mdl <> st.dl then mism (at ^ Printf.sprintf "delivered bundles differ: model %d impl %d" (List.length mdl) (List.length st.dl));
      if mop <> List.map int_of_n st.op then mism (at ^ "open transmissions differ");
      if st.herr <> (mff <> []) then mism (at ^ "handler error differs")) refs steps;
  !res

(* a faulty train (received indices ksub of n) whose fault was NOT signalled: which class *)
let unsignalled_class ksub n ndel : string * string =
  let (copies, rest) = strip_copies ksub n 0 in
  if rest = [] && copies >= 2 then
    ("bbc.dup.complete-train-redelivered",
     Printf.sprintf "complete train of %d fragment(s) received %d times: delivered %d times, no failure signalled" n copies ndel)
  else if is_prefix_chain rest 0 && List.length rest < n then
    ("bbc.fault.trailing-incomplete",
     Printf.sprintf "only the first %d of %d fragments arrived and nothing after them: no failure signalled, nothing delivered for it, transmission left open" (List.length rest) n)
  else ("bbc.fault.undetected", "fault inside a transmission was not signalled")

let rec local = function a :: (b :: _ as l) -> near a b && local l | _ -> true

let rx = function
  | [label; mtu; trains; refs; steps] ->
    let label = s_sym label in
    let _ = s_int mtu in
    let ts = parse_trains trains in
    let refs = parse_refs refs in
    let steps = List.map (fun st -> (st.herr, st.ff, st.ft, st.dl, st.op)) (parse_steps steps) in
    if List.length refs <> List.length steps then raise (Bad "refs/steps length");
    let res = ref (correspond ts refs (List.map (fun (herr, ff, ft, dl, op) -> { herr; ff; ft; dl; op }) steps)) in
    (* the property, on the implementation's outputs *)
    let delivered = List.concat (List.map (fun (_, _, _, dl, _) -> dl) steps) in
    let signalled = List.concat (List.map (fun (_, ff, _, _, _) -> List.filter_map (fun f -> if f_fail f then Some f.f_tid else None) ff) steps) in
    let pf k d = res := Propfail (k, d) :: !res in
    List.iter (fun d -> match d with
        | Some b -> if not (Array.exists (fun t -> t.bndl = b) ts) then pf "bbc.deliver.different" "a bundle was delivered that was not sent"
        | None -> pf "bbc.deliver.different" "an unexpected status was reported") delivered;
    let tags = ref [label] in
    Array.iteri (fun k t ->
        let n = Array.length t.frags in
        let ksub = List.filter_map (fun (k', i) -> if k' = k && i > 0 then Some (i - 1) else None) refs in
        let fault = not (List.length ksub = n && is_prefix_chain ksub 0) in
        let ndel = List.length (List.filter (fun d -> d = Some t.bndl) delivered) in
        let sig_ = List.mem t.tid signalled in
        if not fault then begin
          tags := "train-nofault" :: !tags;
          if ndel = 0 then pf "bbc.nofault.not-delivered" "fault-free transmission was not delivered"
          else if ndel > 1 then pf "bbc.nofault.delivered-twice" "fault-free transmission delivered more than once";
          if sig_ then pf "bbc.nofault.failure-signalled" "failure fragment for a fault-free transmission"
        end else if local ksub then begin
          if sig_ then tags := (if ndel > 0 then "fault-signalled+delivered" else "fault-signalled") :: !tags
          else begin
            let (key, d) = unsignalled_class ksub n ndel in pf key d
          end
        end else begin
          tags := "beyond-locality" :: !tags
        end) ts;
    if !res = [] then [Ok_ (List.sort_uniq compare !tags)] else
      (* known-finding classes are reported together with the tags of what else was fine *)
      !res
  | _ -> raise (Bad "rx case")

let () =
  register "C12bbc" "train" train;
  register "C12bbc" "send" send;
  register "C12bbc" "sendpend" sendpend;
  register "C12bbc" "rx" rx
