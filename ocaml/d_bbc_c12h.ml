(* C12 (BBC part), two further scenario classes on one Connector (harness/bbc_c12_hist.go).

   C12bbchist / hist: histories in which transmission ids are used again.  Trains under one id
   arrive one after the other (other ids interleaved), every train is judged on the steps that
   carry its own fragments:
     - whatever is delivered at a step of train k is train k's bundle (never a different one; a train
       whose blob does not decode delivers nothing);
     - an intact train is delivered exactly once, identical, and no failure fragment is emitted for
       it - unless the receiver itself still had the id open: the last data fragment under that id
       before the train was accepted silently and was not an end fragment (that is the known finding
       bbc.fault.trailing-incomplete: nothing ever closes such a transmission, its consequences are
       filed under the same key);
     - a faulty train (within the locality bound, id not open before) is signalled.
   "The receiver is done with an id" is read off the receiver's own signals (it emitted a failure
   fragment or delivered at the last data fragment under that id), not off the model.

   C12bbcbusy / busy: trains arrive through Modem.Receive while the Connector's own outgoing queue is
   full (own bundle of more fragments than the queue holds, modem blocked), before the own Send, or
   while the queue drains.  After everything has drained: the modem transmitted a failure fragment
   for every faulty train, the own trains intact and in order; intact trains were delivered. *)
open Model
open Conv
open Sexp
open Verdict
open D_bbc_c12

let hist = function
  | [label; mtu; trains; refs; steps] ->
    let label = s_sym label in
    let _ = s_int mtu in
    let ts = parse_trains trains in
    let cls = parse_classes trains in
    let refs = parse_refs refs in
    let steps = parse_steps steps in
    if List.length refs <> List.length steps then raise (Bad "refs/steps length");
    let res = ref (correspond ts refs steps) in
    let pf k d = res := Propfail (k, d) :: !res in
    let tags = ref [label] in
    let rs = Array.of_list (List.combine refs steps) in
    let nsteps = Array.length rs in
    (* never a different bundle, step by step *)
    Array.iter (fun ((k, i), st) ->
        List.iter (fun d ->
            if i = 0 then pf "bbc.deliver.different" "a bundle was delivered on a peer's failure fragment"
            else match d with
              | Some b when b = ts.(k).bndl && b <> [] -> ()
              | Some _ -> pf "bbc.deliver.different"
                            (Printf.sprintf "while receiving train %d (%s) a bundle was delivered that is not the one sent in it" k cls.(k))
              | None -> pf "bbc.deliver.different" "an unexpected status was reported") st.dl) rs;
    Array.iteri (fun k t ->
        let n = Array.length t.frags in
        let mine = List.filter (fun j -> let ((k', i), _) = rs.(j) in k' = k && i > 0) (List.init nsteps (fun j -> j)) in
        match mine with
        | [] -> ()
        | first :: _ ->
          let ksub = List.map (fun j -> snd (fst rs.(j)) - 1) mine in
          let ndel = List.fold_left (fun a j -> a + List.length (snd rs.(j)).dl) 0 mine in
          let sig_ = List.exists (fun j -> List.exists (fun f -> f_fail f && f.f_tid = t.tid) (snd rs.(j)).ff) mine in
          (* the last data fragment under this id before the train: how did the receiver leave the id *)
          let rec prev j = if j < 0 then None else
              let ((k', i), st) = rs.(j) in
              if i > 0 && ts.(k').tid = t.tid then Some (k', i - 1, st) else prev (j - 1) in
          let before = prev (first - 1) in
          let left_open = match before with
            | Some (k', i', st) -> st.ff = [] && st.dl = [] && not (f_end ts.(k').frags.(i')) | None -> false in
          let how = match before with
            | None -> "fresh-id"
            | Some (k', _, st) -> if left_open then "id-left-open" else if st.dl <> [] then "after-delivered" else "after-failed-" ^ cls.(k') in
          let reused = before <> None in
          let intact = ksub = List.init n (fun i -> i) in
          if t.bndl = [] then
            tags := (if intact && not left_open then (if sig_ then "undecodable-finished-signalled" else "undecodable-finished") else "undecodable-faulty") :: !tags
          else if intact then begin
            if left_open then begin
              if ndel <> 1 || sig_ then
                pf "bbc.fault.trailing-incomplete"
                  (Printf.sprintf "a transmission under id %s was left open (its final fragments never arrived): the intact train that uses the id next is refused (delivered %d times, failure signalled: %b)" (dec_of_n t.tid) ndel sig_)
              else tags := ("intact-" ^ how) :: !tags
            end else begin
              tags := ("intact-" ^ how) :: !tags;
              if ndel = 0 then
                pf (if reused then "bbc.reuse.not-delivered" else "bbc.nofault.not-delivered")
                  (Printf.sprintf "intact train %d under id %s (%s) was not delivered" k (dec_of_n t.tid) how)
              else if ndel > 1 then pf "bbc.nofault.delivered-twice" "fault-free transmission delivered more than once";
              if sig_ then
                pf (if reused then "bbc.reuse.failure-signalled" else "bbc.nofault.failure-signalled")
                  (Printf.sprintf "failure fragment for the intact train %d under id %s (%s)" k (dec_of_n t.tid) how)
            end
          end else if left_open then tags := "faulty-on-open-id" :: !tags
          else if local ksub then begin
            if sig_ then tags := ("fault-signalled-" ^ cls.(k)) :: !tags
            else begin let (key, d) = unsignalled_class ksub n ndel in pf key d end
          end else tags := "beyond-locality" :: !tags) ts;
    if !res = [] then [Ok_ (List.sort_uniq compare !tags)] else !res
  | _ -> raise (Bad "hist case")

let busy = function
  | [Atom "setup-failed"; why] -> [Mismatch ("busy scenario could not be set up: " ^ s_sym why)]
  | [status; whenp; mtu; qcap; full; own_tid; pre; big; own_err; small; sent_err; trains; refs; own_sent; fail_sent; dl] ->
    let status = s_sym status and whenp = s_sym whenp and mtu = s_int mtu and qcap = s_int qcap in
    let own_tid = s_n own_tid in
    let ts = parse_trains trains in
    let cls = parse_classes trains in
    let refs = parse_refs refs in
    let own_sent = List.map frag_of_s (lst own_sent) and fail_sent = List.map frag_of_s (lst fail_sent) in
    let dl = parse_delivered dl in
    let res = ref [] in
    let pf k d = res := Propfail (k, d) :: !res in
    let mism d = res := Mismatch d :: !res in
    if status <> "ok" then
      pf "bbc.busy.stuck" (Printf.sprintf "%s: after the modem was released the connector did not finish (%s)" whenp status)
    else begin
      if whenp = "while-full" && not (s_bool full) then mism "the outgoing queue was not full while the trains arrived";
      (* ---- the own side: what the modem must have seen, by the model ---- *)
      let room = nat_of_int (mtu - 2) in
      let prev_tid t = n_of_int ((int_of_n t + 255) mod 256) in
      let own_trains =
        List.map (fun b -> (prev_tid own_tid, s_bytes b)) (lst pre) @ [(own_tid, s_bytes big); (next_tid own_tid, s_bytes small)] in
      let own_model = List.concat (List.map (fun (tid, blob) ->
          match out_fragments tid room blob with Some fs -> fs | None -> []) own_trains) in
      (* ---- the receiving side by the model: the injected fragments in order ---- *)
      let decodes = decodes_of ts in
      let (_, outs) = handle_all decodes [] (List.map (frag_of_ref ts) refs) in
      let mff = List.filter_map (function OutFailFrag f -> Some f | _ -> None) outs in
      let mdl = List.filter_map (function OutBlob (_, b) -> Some (bundle_of_blob ts b) | _ -> None) outs in
      if not (bbcq_sent_ok own_model mff (own_sent @ fail_sent)) then
        mism (Printf.sprintf "modem saw %d own + %d failure fragments, model: %d + %d (or other contents / order)"
                (List.length own_sent) (List.length fail_sent) (List.length own_model) (List.length mff));
      if mdl <> dl then mism (Printf.sprintf "delivered bundles differ: model %d impl %d" (List.length mdl) (List.length dl));
      (* ---- the property, on what the implementation did ---- *)
      if s_bool own_err || s_bool sent_err then pf "bbc.send.error" "Send of a bundle errored although no peer reported a failure";
      (* own trains: every one intact, in order *)
      let rec split_trains fs acc cur = match fs with
        | [] -> List.rev (if cur = [] then acc else List.rev cur :: acc)
        | f :: r -> if f_end f then split_trains r (List.rev (f :: cur) :: acc) [] else split_trains r acc (f :: cur) in
      let got = split_trains own_sent [] [] in
      if List.length got <> List.length own_trains then
        pf "bbc.busy.own-train-damaged" (Printf.sprintf "%d own transmissions sent, the modem saw %d end marks" (List.length own_trains) (List.length got))
      else
        List.iter2 (fun (tid, blob) fs ->
            let r = check_train ~tid:(Some tid) ~mtu ~blob fs in
            if r <> [] then pf "bbc.busy.own-train-damaged" "the own transmission did not reach the modem intact and in order") own_trains got;
      (* incoming trains: ids are pairwise distinct here *)
      List.iter (fun d -> match d with
          | Some b when Array.exists (fun t -> t.bndl = b && b <> []) ts -> ()
          | _ -> pf "bbc.deliver.different" "a bundle was delivered that was not sent") dl;
      let tags = ref [whenp] in
      Array.iteri (fun k t ->
          let n = Array.length t.frags in
          let ksub = List.filter_map (fun (k', i) -> if k' = k && i > 0 then Some (i - 1) else None) refs in
          let intact = ksub = List.init n (fun i -> i) in
          let ndel = List.length (List.filter (fun d -> d = Some t.bndl) dl) in
          let sig_ = List.exists (fun f -> f.f_tid = t.tid) fail_sent in
          if t.bndl = [] then tags := "undecodable" :: !tags
          else if intact then begin
            tags := "intact-delivered" :: !tags;
            if ndel = 0 then pf "bbc.busy.not-delivered" (Printf.sprintf "%s: intact incoming train was not delivered" whenp)
            else if ndel > 1 then pf "bbc.nofault.delivered-twice" "fault-free transmission delivered more than once";
            if sig_ then pf "bbc.busy.failure-signalled" (Printf.sprintf "%s: failure fragment for an intact incoming train" whenp)
          end else if local ksub then begin
            if sig_ then tags := ("fault-signalled-" ^ cls.(k)) :: !tags
            else begin
              let (key, d) = unsignalled_class ksub n ndel in
              if key = "bbc.fault.undetected" then
                pf "bbc.busy.failure-not-transmitted"
                  (Printf.sprintf "%s: train under id %s arrived with a fault (%s, fragments %s of %d) - after the own queue (capacity %d) had drained the modem had transmitted no failure fragment for it"
                     whenp (dec_of_n t.tid) cls.(k) (String.concat "," (List.map string_of_int ksub)) n qcap)
              else pf key d
            end
          end else tags := "beyond-locality" :: !tags) ts;
      if !res = [] then res := [Ok_ (List.sort_uniq compare !tags)]
    end;
    !res
  | _ -> raise (Bad "busy case")

let () =
  register "C12bbchist" "hist" hist;
  register "C12bbcbusy" "busy" busy
