(* C05 - store-carry-forward: driver glue.
   A case is one history of a real routing.Core: per event the input (bundle fields, peer, clock
   reading), the sends the mock convergence layers saw, and the store status (known / pending / sent
   list) of every bundle handed in so far.
   (1) trace inclusion: the history is replayed through Model.scf_step with the oracle taken from the
       observation (clock, per bundle the peers chosen with the outcome of each send, deletion after a
       success); the step must accept it, and the model's store status must equal the observed one.
   (2) the property's own checker, on the log alone: every accepted, unexpired, unrefused bundle that
       was not yet transmitted successfully is in the store and pending after every event; direct
       delivery and the epidemic offer on a peer's appearance; a failed peer does not stay in `sent`.
       "Refused for cause" is read off the block array in the bundle's description: only a block of a type
       the node does not know that carries the delete-bundle flag refuses a received bundle (the model's
       verdict for the same array is Model.scf_rx_del, the loop of receive).
   (3) histories under schedule control (harness/scf_sched.go): an (atreturn ..) record after an event lists
       the failure reports that had not finished when forward went on / the handler returned (the model's
       handlers are atomic: Mismatch) and the store status at handler return, which must equal the status
       after everything had run; the property is judged on the latter. *)
open Model
open Conv
open Sexp
open Verdict

type tb = { idx : int; local : bool; dst : int; prev : int; ts : n; life : n; age : n option;
            hop : (n * n) option; del : bool; mdel : bool; blks : (bool * int) list; dead : bool;
            adm : (int * bool) option;  (* flagged as administrative record: payload kind, readable by this implementation *)
            mutable accepted : bool; mutable refused : bool; mutable okpeers : int list;
            mutable lost : bool; mutable known : bool; mutable pend : bool; mutable sent : int list }

(* block processing control flags (RFC 9171 4.2.4 / bpv7.BlockControlFlags) *)
let fl_replicate = 1 and fl_report = 2 and fl_delete = 4 and fl_remove = 16
let has f (_, fl) = fl land f <> 0

let tb_of_s s =
  let mk ?(adm = None) idx local dst prev ts life age hop del dead blks =
    (* the property's reading: refused for cause only when a block of a type the node does not know
       demands the deletion; the model's: the loop of receive *)
    let blks = List.map (fun b -> match lst b with [k; f] -> (s_bool k, s_int f) | _ -> raise (Bad "block")) blks in
    let pdel, mdel =
      if blks = [] then s_bool del, s_bool del
      else List.exists (fun b -> not (fst b) && has fl_delete b) blks,
           scf_rx_del (List.map (fun (k, f) -> { bk_known = k; bk_flags = n_of_int f }) blks) in
    { idx = s_int idx; local = s_bool local; dst = s_int dst; prev = s_int prev; ts = s_n ts; life = s_n life;
      age = (match lst age with [a] -> Some (s_n a) | _ -> None);
      hop = (match lst hop with [l; c] -> Some (s_n l, s_n c) | _ -> None);
      del = pdel; mdel; blks; dead = s_bool dead; adm; accepted = false; refused = false; okpeers = []; lost = false;
      known = false; pend = false; sent = [] } in
  match lst s with
  | [idx; local; dst; prev; ts; life; age; hop; del; dead; blks; adm] ->
    let adm = match lst adm with [k; rd] -> Some (s_int k, s_bool rd) | _ -> raise (Bad "administrative record") in
    mk ~adm idx local dst prev ts life age hop del dead (lst blks)
  | [idx; local; dst; prev; ts; life; age; hop; del; dead; blks] -> mk idx local dst prev ts life age hop del dead (lst blks)
  | [idx; local; dst; prev; ts; life; age; hop; del; dead] -> mk idx local dst prev ts life age hop del dead []
  | _ -> raise (Bad "bundle description")

let ni = n_of_int
let model_bundle (t : tb) : scf_bundle =
  { sb_id = ni t.idx; sb_local = t.local; sb_dst = ni t.dst;
    sb_prev = (if t.prev = 0 then None else Some (ni t.prev));
    sb_ts = t.ts; sb_life = t.life; sb_age = t.age; sb_hop = t.hop; sb_del = t.mdel }

let hop_exceeded t = match t.hop with Some (l, c) -> int_of_n l < int_of_n c + 1 | None -> false

type send = { sp : int; sidx : int; sok : bool }
let send_of_s s = match lst s with [p; i; ok] -> { sp = s_int p; sidx = s_int i; sok = s_bool ok } | _ -> raise (Bad "send")
type stat = { q_idx : int; q_known : bool; q_pend : bool; q_sent : int list }
let stat_of_s s = match lst s with
  | [i; k; p; sl] -> { q_idx = s_int i; q_known = s_bool k; q_pend = s_bool p; q_sent = List.sort compare (List.map s_int (lst sl)) }
  | _ -> raise (Bad "status")

let age_factor = ni 1 (* UpdateBundleAge adds milliseconds since fix 1d50712 *)

let show_ints l = "[" ^ String.concat "," (List.map string_of_int l) ^ "]"

let hist = function
  | [alg; _salt; _specs; obs] ->
    let algname = s_sym alg in
    let malg, cmp_sent = match algname with
      | "epidemic" -> scf_epidemic, true
      | "sensor_mule" -> scf_mule, true
      | "prophet" -> scf_other, true
      | _ -> scf_other, false in
    let tracked : (int, tb) Hashtbl.t = Hashtbl.create 16 in
    let order = ref [] in
    let peers = ref [] in
    let res = ref [] in
    let tags = ref [algname] in
    let tag t = if not (List.mem t !tags) then tags := t :: !tags in
    let pf key detail = if not (List.exists (function Propfail (k, _) -> k = key | _ -> false) !res) then
        res := Propfail (key, detail) :: !res in
    let mstate = ref (Some scf_init) in
    let mism = ref false in
    let evno = ref 0 in
    List.iter (fun ev ->
        incr evno;
        let l = lst ev in
        let kind = s_sym (List.hd l) in
        let now = s_n (List.nth l 1) in
        let nl = List.length l in
        let sends = List.map send_of_s (lst (List.nth l (nl - 3))) in
        let stats = List.map stat_of_s (lst (List.nth l (nl - 2))) in
        let other = s_int (List.nth l (nl - 1)) in
        if other > 0 then tag "metadata-sends";
        if kind = "conf" then tag (if s_int (List.nth l 2) = 1 then "conf-inspect-all" else "conf-default")
        else if kind <> "atreturn" then tag kind;
        if kind = "atreturn" then begin
          (* schedule control: what was held back when the handler returned, and the store as the handler
             left it; the event's own record (before this one) has the store after everything had run *)
          decr evno;
          List.iter (fun p -> tag ("sched-" ^ s_sym p)) (lst (List.nth l 3));
          List.iter (fun e -> match lst e with
              | [i; p] ->
                res := Mismatch (Printf.sprintf "%s: event %d: the failure report for the send of bundle %d to n%d was still running when forward went on / the handler returned (the model's handlers are atomic)"
                                   algname !evno (s_int i) (s_int p)) :: !res
              | _ -> raise (Bad "escaped report")) (lst (List.nth l 2));
          List.iter (fun q ->
              match Hashtbl.find_opt tracked q.q_idx with
              | Some t when (q.q_known, q.q_pend, q.q_sent) <> (t.known, t.pend, t.sent) && not !mism ->
                mism := true;
                res := Mismatch (Printf.sprintf "%s: event %d: the store item of bundle %d changed after the handler had returned (pending %b, sent %s; then pending %b, sent %s)"
                                   algname !evno t.idx q.q_pend (show_ints q.q_sent) t.pend (show_ints t.sent)) :: !res
              | _ -> ()) stats
        end else
        if kind <> "nop" && kind <> "conf" then begin
          (* ---------------- the input event ---------------- *)
          let newtb = match kind with
            | "sub" | "rcv" -> let t = tb_of_s (List.nth l 2) in Hashtbl.replace tracked t.idx t; order := !order @ [t]; Some t
            | _ -> None in
          let upp = if kind = "up" || kind = "down" then s_int (List.nth l 2) else 0 in
          let peers_before = !peers in
          (match kind with
           | "up" -> peers := upp :: List.filter (fun q -> q <> upp) !peers
           | "down" -> peers := List.filter (fun q -> q <> upp) !peers
           | "restart" -> peers := []
           | _ -> ());
          ignore peers_before;
          (* what was obligated before this event *)
          let obligated t = t.accepted && not t.refused && not t.dead && t.dst <> 0 && t.okpeers = [] in
          let before = List.map (fun t -> (t, obligated t, t.known && t.pend, t.okpeers)) !order in
          (* acceptance *)
          (match newtb with
           | Some t ->
             if kind = "sub" then (t.accepted <- t.local; tag (if t.local then "submit-local" else "submit-foreign"))
             else (t.accepted <- true; if t.del then (t.refused <- true; tag "refused-unknown-block"));
             if hop_exceeded t then (t.refused <- true; tag "refused-hop-limit");
             if t.dead then tag "bundle-expired";
             if List.length t.blks > 1 && kind = "rcv" then begin
               let rec adj = function
                 | a :: (b :: _ as r) ->
                   if not (fst a) then begin
                     tag "blocks-unknown";
                     if has fl_remove a && not (has fl_delete a) then begin
                       tag "blocks-unknown-remove";
                       if has fl_delete b then tag (if fst b then "blocks-unknown-remove-before-known-delete" else "blocks-unknown-remove-before-unknown-delete")
                     end;
                     if has fl_report a then tag "blocks-unknown-report";
                     if has fl_replicate a then tag "blocks-unknown-replicate"
                   end else if has fl_delete a then tag "blocks-known-delete";
                   adj r
                 | [a] -> if has fl_delete a then tag "blocks-payload-delete"
                 | [] -> () in
               adj t.blks
             end;
             (* a bundle in transit is carried whatever its payload is: the administrative-record flag and a
                payload the node cannot read are no cause for refusal (the rules below apply unchanged) *)
             (match t.adm with
              | Some (_, rd) when t.dst <> 0 ->
                tag (if rd then "adm-in-transit-readable" else "adm-in-transit-unreadable")
              | _ -> ());
             if t.ts = N0 then tag "zero-time" else tag "timestamped";
             if t.dst = 0 then tag "local-destination"
           | None -> ());
          (* sends of this event *)
          List.iter (fun s ->
              (match Hashtbl.find_opt tracked s.sidx with
               | Some t -> if s.sok then (t.okpeers <- s.sp :: t.okpeers; tag "send-ok") else tag "send-failed"
               | None -> ())) sends;
          (* two or more failures of one bundle in one event *)
          List.iter (fun t ->
              if List.length (List.filter (fun s -> s.sidx = t.idx && not s.sok) sends) >= 2 then tag "concurrent-failures") !order;
          (* status after the event *)
          List.iter (fun q ->
              match Hashtbl.find_opt tracked q.q_idx with
              | Some t -> t.known <- q.q_known; t.pend <- q.q_pend; t.sent <- q.q_sent
              | None -> ()) stats;
          (* ---------------- the property, on the log alone ---------------- *)
          (* epidemic routing keeps a bundle after a transmission to a peer that is not its destination *)
          if algname = "epidemic" then
            List.iter (fun t ->
                if t.accepted && not t.refused && not t.dead && t.dst <> 0 && t.okpeers <> []
                   && not (List.mem t.dst t.okpeers) && not t.lost && not (t.known && t.pend) then begin
                  t.lost <- true;
                  pf "scf.epidemic.dropped-after-send"
                    (Printf.sprintf "epidemic: bundle %d (dst n%d) was transmitted to %s only, but is %s after event %d (%s)"
                       t.idx t.dst (show_ints t.okpeers) (if t.known then "not pending any more" else "gone from the store") !evno kind)
                end) !order;
          List.iter (fun t ->
              if obligated t && not t.lost && not (t.known && t.pend) then begin
                t.lost <- true;
                let what = if t.known then "in the store but not pending" else "not in the store" in
                let d = Printf.sprintf "%s: bundle %d (dst n%d%s) is %s after event %d (%s)" algname t.idx t.dst
                    (if t.ts = N0 then ", zero creation time" else "") what !evno kind in
                if kind = "tickc" && t.ts = N0 then pf "scf.zero-time.swept" d
                else if kind = "restart" then pf "scf.restart.lost" d
                else pf ("scf.lost." ^ kind) d
              end) !order;
          (* the size of the backlog a retry pass has to work through *)
          if kind = "up" || kind = "tickp" then begin
            let np = List.length (List.filter (fun (_, _, kp, _) -> kp) before) in
            List.iter (fun b -> if np >= b then tag (Printf.sprintf "backlog-%d+" b)) [100; 129; 257; 500; 1000]
          end;
          (* a retry pass: a waiting bundle whose destination is a connected peer is transmitted to it (however
             many other bundles are waiting) *)
          if kind = "tickp" then
            List.iter (fun (t, obl, kp, _) ->
                if obl && kp && List.mem t.dst !peers && t.prev <> t.dst then begin
                  tag "direct-on-retry";
                  if not (List.exists (fun s -> s.sidx = t.idx && s.sp = t.dst) sends) then
                    pf "scf.direct.not-retried" (Printf.sprintf "%s: bundle %d for the connected peer n%d was not transmitted in the retry pass (event %d)" algname t.idx t.dst !evno)
                end) before;
          if kind = "up" then
            List.iter (fun (t, obl, kp, okp) ->
                let sent_to_p = List.exists (fun s -> s.sidx = t.idx && s.sp = upp) sends in
                if obl && kp && t.dst = upp && t.prev <> upp then begin
                  tag "direct-on-appearance";
                  if not sent_to_p then
                    pf "scf.direct.not-sent" (Printf.sprintf "%s: bundle %d for n%d was not transmitted when n%d appeared (event %d)" algname t.idx t.dst upp !evno)
                end;
                if algname = "epidemic" && t.accepted && not t.refused && not t.dead && t.dst <> 0 && kp
                   && not (List.mem t.dst !peers) && t.prev <> upp && not (List.mem upp okp) then begin
                  tag "epidemic-offer";
                  if not sent_to_p then
                    pf "scf.epidemic.not-offered" (Printf.sprintf "epidemic: bundle %d was not offered to the new peer n%d (event %d; sent list before: %s)" t.idx upp !evno (show_ints t.sent))
                end) before;
          if cmp_sent then
            List.iter (fun s ->
                if not s.sok then
                  match Hashtbl.find_opt tracked s.sidx with
                  | Some t when t.known && List.mem s.sp t.sent ->
                    pf "scf.failure.peer-stuck-in-sent" (Printf.sprintf "%s: the send of bundle %d to n%d failed in event %d, but n%d is still in the sent list %s: it will not be retried" algname t.idx s.sp !evno s.sp (show_ints t.sent))
                  | _ -> ()) sends;
          (* ---------------- trace inclusion against the model ---------------- *)
          (match !mstate with
           | None -> ()
           | Some ms ->
             let att = List.map (fun t ->
                 let mine = List.filter (fun s -> s.sidx = t.idx) sends in
                 let anyok = List.exists (fun s -> s.sok) mine in
                 (ni t.idx, { at_sends = List.map (fun s -> (ni s.sp, s.sok)) mine; at_del = anyok && not t.known })) !order in
             let att = List.filter (fun (_, a) -> a.at_sends <> []) att in
             let o = { or_now = now; or_att = att } in
             let e = match kind, newtb with
               | "sub", Some t -> SeSubmit (model_bundle t)
               | "rcv", Some t -> SeReceive (model_bundle t, ni (s_int (List.nth l 3)))
               | "dup", _ -> (match Hashtbl.find_opt tracked (s_int (List.nth l 2)) with
                   | Some t -> SeReceive (model_bundle t, ni (s_int (List.nth l 3)))
                   | None -> raise (Bad "dup of an unknown bundle"))
               | "up", _ -> ScPeerUp (ni upp)
               | "down", _ -> ScPeerDown (ni upp)
               | "tickp", _ -> SeTickPending
               | "tickc", _ -> SeTickClean
               | "restart", _ -> SeRestart
               | _ -> raise (Bad ("event " ^ kind)) in
             (match scf_step malg age_factor ms e o with
              | None ->
                mstate := None; mism := true;
                res := Mismatch (Printf.sprintf "%s: event %d (%s): the observed sends are not ones the model allows" algname !evno kind) :: !res
              | Some (ms', _) ->
                mstate := Some ms';
                List.iter (fun t ->
                    if not !mism then
                      match scf_status ms' (ni t.idx) with
                      | None -> if t.known then (mism := true;
                                                 res := Mismatch (Printf.sprintf "%s: event %d (%s): bundle %d is in the store, the model has deleted it" algname !evno kind t.idx) :: !res)
                      | Some (p, sent) ->
                        let ms = List.sort compare (List.map int_of_n sent) in
                        if not t.known then (mism := true;
                                             res := Mismatch (Printf.sprintf "%s: event %d (%s): bundle %d is not in the store, the model keeps it" algname !evno kind t.idx) :: !res)
                        else if p <> t.pend then (mism := true;
                                                  res := Mismatch (Printf.sprintf "%s: event %d (%s): bundle %d pending=%b, model %b" algname !evno kind t.idx t.pend p) :: !res)
                        else if cmp_sent && ms <> t.sent then (mism := true;
                                                               res := Mismatch (Printf.sprintf "%s: event %d (%s): bundle %d sent list %s, model %s" algname !evno kind t.idx (show_ints t.sent) (show_ints ms)) :: !res))
                  !order))
        end) (lst obs);
    if !res = [] then [Ok_ (List.rev !tags)] else List.rev !res
  | _ -> raise (Bad "hist case")

let () =
  register "C05scf" "hist" hist;
  register "C05scf" "skipped" (fun _ -> [Ok_ ["skipped-slow"]])
