(* C02node: every bundle a running Core handed to a convergence layer (under each node configuration,
   and after dwell times in the store), parsed inside Send: it must be accepted by the real parser and
   by the model decoder.  Same case format and judgement as C02produce (D_bundle.produced_case); the
   finding keys are wf.produced.nodecfg.<class> / wf.produced.nodedwell.<class> with
   class = own-report | relayed-report | own | forwarded. *)
open Verdict

let () =
  register "C02node" "produced" D_bundle.produced_case;
  register "C02node" "produce-dist" (fun _ -> [Ok_ ["dist"]])
