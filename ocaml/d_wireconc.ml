(* driver glue for generator C17conc: the encoders of C17 called re-entrantly and concurrently
   (harness/wireconc.go).  The file name sorts after d_tcpclmsg.ml / d_auxcbor.ml / d_bbc.ml.

   Judge: the model's encoder (pure, hence the same whoever else encodes).  An output that is not the
   model's encoding of the value is a violation of "every value decodes from its own encoding to an
   equal value" - what it decodes to instead is part of the detail. *)
open Model
open Conv
open Sexp
open Verdict

let short_hex a = if String.length a > 80 then String.sub a 0 80 ^ "..." else a

(* fields shared by the conc cases: run wrongs errs panics decdiff *)
let conc_checks (pfx : string) (kind : string) (describe : Sexp.t -> string) (run, wrongs, errs, panics, decdiff) : verdict list =
  let r = ref [] in
  List.iter (fun w -> match lst w with
      | [out; count] ->
        r := Propfail (pfx ^ ".concurrent.encoding-differs." ^ kind,
                       Printf.sprintf "%s of %s encodings, made while other goroutines encode their own values, differ from the one made alone: %s"
                         (atom count) (atom run) (describe out)) :: !r
      | _ -> raise (Bad "wrong entry")) (lst wrongs);
  if s_int errs > 0 then r := Propfail (pfx ^ ".concurrent.encoder-error." ^ kind, Printf.sprintf "%d of %s encodings failed" (s_int errs) (atom run)) :: !r;
  if s_int panics > 0 then r := Propfail (pfx ^ ".concurrent.panic." ^ kind, Printf.sprintf "%d panics" (s_int panics)) :: !r;
  if s_int decdiff > 0 then
    r := Propfail (pfx ^ ".concurrent.decoding-differs." ^ kind, Printf.sprintf "%d decodings of the value's own encoding gave something else" (s_int decdiff)) :: !r;
  !r

(* ---- TCPCLv4 ---- *)

let t_describe (out : Sexp.t) : string =
  let bs = s_bytes out in
  let o = match bs with
    | x :: _ when int_of_n x = 0x64 -> D_tcpclmsg.obs_of_model (tm_dec_contact bs)
    | _ -> D_tcpclmsg.obs_of_model (tm_read bs) in
  Printf.sprintf "%s decodes to %s" (short_hex (atom out)) (D_tcpclmsg.show_obs o)

let h_treent = function
  | [v; u; before; refb; outer; inner] ->
    let mv = D_tcpclmsg.msg_of_s v and mu = D_tcpclmsg.msg_of_s u in
    let kind = D_tcpclmsg.type_name mv in
    let r = ref [] in
    let ev = hex_of_bytes (tm_enc mv) and eu = hex_of_bytes (tm_enc mu) in
    if ev <> atom refb then r := Mismatch "Marshal: model encodes differently" :: !r;
    let how = if s_bool before then "before" else "after" in
    (match lst outer with
     | [Atom "ok"; out] ->
       if atom out <> ev then
         r := Propfail ("tcpclmsg.reentrant." ^ kind,
                        Printf.sprintf "%s marshalled into a writer that marshals %s %s it takes the bytes: %s"
                          (D_tcpclmsg.show_msg mv) (D_tcpclmsg.show_msg mu) how (t_describe out)) :: !r
     | _ -> r := Propfail ("tcpclmsg.reentrant." ^ kind, "Marshal fails when the writer marshals another message") :: !r);
    List.iter (fun o ->
        if atom o <> eu then
          r := Propfail ("tcpclmsg.reentrant." ^ kind,
                         Printf.sprintf "%s marshalled inside the Write of the marshalling of %s: %s"
                           (D_tcpclmsg.show_msg mu) (D_tcpclmsg.show_msg mv) (t_describe o)) :: !r) (lst inner);
    if !r = [] then [Ok_ ["treent"; kind; how; Printf.sprintf "writes=%d" (min 9 (List.length (lst inner)))]] else !r
  | _ -> raise (Bad "treent case")

let h_tconc = function
  | [v; refb; g; run; wrongs; errs; panics; decdiff] ->
    let mv = D_tcpclmsg.msg_of_s v in
    let kind = D_tcpclmsg.type_name mv in
    let r = ref [] in
    if hex_of_bytes (tm_enc mv) <> atom refb then r := Mismatch "Marshal: model encodes differently" :: !r;
    r := conc_checks "tcpclmsg" kind t_describe (run, wrongs, errs, panics, decdiff) @ !r;
    if !r = [] then [Ok_ ["tconc"; kind; "g=" ^ atom g]] else !r
  | _ -> raise (Bad "tconc case")

(* ---- CBOR auxiliary formats ---- *)

let a_describe (now : n) (kind : string) (out : Sexp.t) : string =
  let bs = s_bytes out in
  let d = match dec_aux now (D_auxcbor.kind_of_sym kind) bs with
    | Ok (v, rest) ->
      let s = D_auxcbor.dump_aux v in
      Printf.sprintf "decodes to %s (%d bytes left)" (if String.length s > 200 then String.sub s 0 200 ^ "..." else s) (List.length rest)
    | _ -> "is rejected by the decoder" in
  short_hex (atom out) ^ " " ^ d

let a_enc (now : n) (dump : Sexp.t) : string option =
  match enc_aux (D_auxcbor.aux_of_s now dump) with Some e -> Some (hex_of_bytes e) | None -> None

let h_areent = function
  | [now; kind; v; u; before; refb; outer; inner] ->
    let now = s_n now and kind = s_sym kind in
    let r = ref [] in
    let ev = a_enc now v and eu = a_enc now u in
    if ev <> Some (atom refb) then r := Mismatch "encoder: model encodes differently" :: !r;
    let how = if s_bool before then "before" else "after" in
    (match lst outer with
     | [Atom "ok"; out] ->
       if Some (atom out) <> ev then
         r := Propfail ("aux.reentrant." ^ kind,
                        Printf.sprintf "a value encoded into a writer that encodes another value of the type %s it takes the bytes: %s" how (a_describe now kind out)) :: !r
     | _ -> r := Propfail ("aux.reentrant." ^ kind, "the encoder fails when the writer encodes another value") :: !r);
    List.iter (fun o ->
        if Some (atom o) <> eu then
          r := Propfail ("aux.reentrant." ^ kind, "a value encoded inside the Write of another encoding: " ^ a_describe now kind o) :: !r) (lst inner);
    if !r = [] then [Ok_ ["areent"; kind; how; Printf.sprintf "writes=%d" (min 9 (List.length (lst inner)))]] else !r
  | _ -> raise (Bad "areent case")

let h_aconc = function
  | [now; kind; v; refb; g; run; wrongs; errs; panics; decdiff] ->
    let now = s_n now and kind = s_sym kind in
    let r = ref [] in
    if a_enc now v <> Some (atom refb) then r := Mismatch "encoder: model encodes differently" :: !r;
    r := conc_checks "aux" kind (a_describe now kind) (run, wrongs, errs, panics, decdiff) @ !r;
    if !r = [] then [Ok_ ["aconc"; kind; "g=" ^ atom g]] else !r
  | _ -> raise (Bad "aconc case")

(* ---- BBC ---- *)

let h_bconc = function
  | [tid; seq; st; en; fa; pl; refb; g; run; wrongs; errs; panics; decdiff] ->
    let f = new_fragment (s_n tid) (s_n seq) (s_bool st) (s_bool en) (s_bool fa) (s_bytes pl) in
    let r = ref [] in
    if hex_of_bytes (frag_bytes f) <> atom refb then r := Mismatch "Bytes: model encodes differently" :: !r;
    let describe out = match parse_fragment (s_bytes out) with
      | Some m -> short_hex (atom out) ^ " parses to " ^ D_bbc.show_frag m
      | None -> short_hex (atom out) ^ " is rejected" in
    r := conc_checks "bbc" "fragment" describe (run, wrongs, errs, panics, decdiff) @ !r;
    if !r = [] then [Ok_ ["bconc"; "g=" ^ atom g]] else !r
  | _ -> raise (Bad "bconc case")

(* ---- decoders re-entrantly; encoders / decoders after a failure ---- *)

(* fields of a state case: n wrongs decwrong *)
let state_checks (pfx : string) (kind : string) (describe : Sexp.t -> string) (wrongs, decwrong) : verdict list =
  let r = ref [] in
  List.iter (fun w -> match lst w with
      | [lim; res] ->
        let what = (match lst res with
            | [Atom "ok"; out] -> "the next encoding of the value differs: " ^ describe out
            | _ -> "the next encoding of the value fails") in
        r := Propfail (pfx ^ ".after-failure.encoding-differs." ^ kind,
                       Printf.sprintf "after an encoding into a writer failing at offset %s %s" (atom lim) what) :: !r
      | _ -> raise (Bad "state entry")) (lst wrongs);
  if s_int decwrong > 0 then
    r := Propfail (pfx ^ ".after-failure.decoding-differs." ^ kind,
                   Printf.sprintf "%d decodings of the value's encoding, each after the decoding of a cut input, gave something else" (s_int decwrong)) :: !r;
  !r

let h_tstate = function
  | [v; refb; n; wrongs; decwrong] ->
    let mv = D_tcpclmsg.msg_of_s v in
    let kind = D_tcpclmsg.type_name mv in
    let r = ref [] in
    if hex_of_bytes (tm_enc mv) <> atom refb then r := Mismatch "Marshal: model encodes differently" :: !r;
    r := state_checks "tcpclmsg" kind t_describe (wrongs, decwrong) @ !r;
    if !r = [] then [Ok_ ["tstate"; kind; Printf.sprintf "offsets>=%d" (s_int n / 10 * 10)]] else !r
  | _ -> raise (Bad "tstate case")

let h_astate = function
  | [now; kind; v; refb; n; wrongs; decwrong] ->
    let now = s_n now and kind = s_sym kind in
    let r = ref [] in
    if a_enc now v <> Some (atom refb) then r := Mismatch "encoder: model encodes differently" :: !r;
    r := state_checks "aux" kind (a_describe now kind) (wrongs, decwrong) @ !r;
    if !r = [] then [Ok_ ["astate"; kind; Printf.sprintf "offsets>=%d" (s_int n / 10 * 10)]] else !r
  | _ -> raise (Bad "astate case")

let h_bstate = function
  | [tid; seq; st; en; fa; pl; refb; _n; wrongs; decwrong] ->
    let f = new_fragment (s_n tid) (s_n seq) (s_bool st) (s_bool en) (s_bool fa) (s_bytes pl) in
    let r = ref [] in
    if hex_of_bytes (frag_bytes f) <> atom refb then r := Mismatch "Bytes: model encodes differently" :: !r;
    r := state_checks "bbc" "fragment" (fun o -> short_hex (atom o)) (wrongs, decwrong) @ !r;
    if !r = [] then [Ok_ ["bstate"]] else !r
  | _ -> raise (Bad "bstate case")

let h_tdreent = function
  | [v; u; before; outer; inner] ->
    let mv = D_tcpclmsg.msg_of_s v and mu = D_tcpclmsg.msg_of_s u in
    let kind = D_tcpclmsg.type_name mv in
    let how = if s_bool before then "before" else "after" in
    let r = ref [] in
    let is_value m o = (match lst o with [Atom "ok"; x] -> tm_msg_eqb m (D_tcpclmsg.msg_of_s x) | _ -> false) in
    (* the model reads the value back from its encoding (round trip theorem): sanity of the expectation *)
    (match D_tcpclmsg.obs_of_model (match mv with TmContact _ -> tm_dec_contact (tm_enc mv) | _ -> tm_read (tm_enc mv)) with
     | D_tcpclmsg.OOk (m, 0) when tm_msg_eqb m mv -> ()
     | _ -> r := Mismatch "model does not read the value back from its encoding" :: !r);
    if not (is_value mv outer) then
      r := Propfail ("tcpclmsg.reentrant-decode." ^ kind,
                     Printf.sprintf "%s read from a reader that reads %s %s it delivers the bytes: %s"
                       (D_tcpclmsg.show_msg mv) (D_tcpclmsg.show_msg mu) how (Sexp.to_string outer)) :: !r;
    List.iter (fun o ->
        if not (is_value mu o) then
          r := Propfail ("tcpclmsg.reentrant-decode." ^ kind,
                         Printf.sprintf "%s read inside the Read of the reading of %s: %s"
                           (D_tcpclmsg.show_msg mu) (D_tcpclmsg.show_msg mv) (Sexp.to_string o)) :: !r) (lst inner);
    if !r = [] then [Ok_ ["tdreent"; kind; how]] else !r
  | _ -> raise (Bad "tdreent case")

let h_adreent = function
  | [_now; kind; v; u; before; outer; inner] ->
    let kind = s_sym kind in
    let how = if s_bool before then "before" else "after" in
    let r = ref [] in
    let is_value d o = (match lst o with [Atom "ok"; x] -> Sexp.to_string x = Sexp.to_string d | _ -> false) in
    let cut s = if String.length s > 200 then String.sub s 0 200 ^ "..." else s in
    if not (is_value v outer) then
      r := Propfail ("aux.reentrant-decode." ^ kind,
                     Printf.sprintf "a value read from a reader that reads another value of the type %s it delivers the bytes: %s" how (cut (Sexp.to_string outer))) :: !r;
    List.iter (fun o ->
        if not (is_value u o) then
          r := Propfail ("aux.reentrant-decode." ^ kind, "a value read inside the Read of another reading: " ^ cut (Sexp.to_string o)) :: !r) (lst inner);
    if !r = [] then [Ok_ ["adreent"; kind; how]] else !r
  | _ -> raise (Bad "adreent case")

let () =
  register "C17conc" "tstate" h_tstate;
  register "C17conc" "astate" h_astate;
  register "C17conc" "bstate" h_bstate;
  register "C17conc" "tdreent" h_tdreent;
  register "C17conc" "adreent" h_adreent;
  register "C17conc" "treent" h_treent;
  register "C17conc" "tconc" h_tconc;
  register "C17conc" "areent" h_areent;
  register "C17conc" "aconc" h_aconc;
  register "C17conc" "bconc" h_bconc
