open Model
open Conv
open Sexp
open Verdict

(* C03state: serialiser after failed writes / serialiser and parser under concurrency.
   The judge of "the serialiser writes that value" is independent of the implementation and of the
   model's encoder: the blocks of an output are delimited by D_crc's CBOR item delimiter, the CRC type
   is read from the block, the value field is zeroed and the model's CRC-16/X-25 / CRC-32C (bit-serial
   definition) is computed over exactly these bytes. *)

type crcjudge = Crc_ok of int | Crc_undelimitable | Crc_wrong of int * int * int * int  (* block, type, written, computed *)

let judge_crcs (a : int array) : crcjudge =
  match D_crc.spans a with
  | None -> Crc_undelimitable
  | Some sp ->
    let res = ref None in
    List.iteri (fun idx (s, e) ->
        if !res = None then begin
          match (try Some (D_crc.block_crc a idx (s, e)) with D_crc.Delim | Invalid_argument _ -> None) with
          | None -> res := Some Crc_undelimitable
          | Some (t, vstart) ->
            if t = 1 || t = 2 then begin
              let w = e - vstart in
              (* the CRC field is a byte string of w bytes: its head precedes the value *)
              if vstart - 1 < s || a.(vstart - 1) <> (0x40 lor w) then res := Some Crc_undelimitable
              else begin
                let covered = List.init (e - s) (fun i -> let p = s + i in if p >= vstart then byte_tbl.(0) else byte_tbl.(a.(p))) in
                let computed = int_of_n (if t = 1 then crc16_x25 covered else crc32c covered) in
                let written = ref 0 in
                for p = vstart to e - 1 do written := (!written lsl 8) lor a.(p) done;
                if !written <> computed then res := Some (Crc_wrong (idx, t, !written, computed))
              end
            end
        end) sp;
    (match !res with Some r -> r | None -> Crc_ok (List.length sp))

(* all checks on one successful output of the serialiser *)
let output_checks (pfx : string) (now : n) (out : n list) (go_ok : bool) (go_panic : bool) : verdict list * string =
  let a = D_crc.arr_of_bytes out in
  let r = ref [] in
  let tag = ref "crc-ok" in
  (match judge_crcs a with
   | Crc_ok _ -> ()
   | Crc_undelimitable ->
     tag := "undelimitable";
     r := Propfail (pfx ^ ".output-malformed", "the serialiser's output cannot be delimited into blocks") :: !r
   | Crc_wrong (idx, t, written, computed) ->
     tag := "crc-wrong";
     r := Propfail (pfx ^ ".wrong-crc-written",
                    Printf.sprintf "block %d (CRC type %d) carries %x, the CRC of its bytes is %x" idx t written computed) :: !r);
  if go_panic then r := Propfail ("codec.parser.panic", "ParseBundle panicked on the serialiser's output") :: !r
  else if not go_ok then r := Propfail (pfx ^ ".output-rejected", "the parser rejects what the serialiser wrote") :: !r;
  let model_ok = (match dec_bundle now out with Some _ -> true | None -> false) in
  if model_ok <> go_ok && not go_panic then
    r := Mismatch (Printf.sprintf "serialiser output: model accepts=%b implementation accepts=%b" model_ok go_ok) :: !r;
  (!r, !tag)

let h_ref = function
  | [now; bs; ok; pn] ->
    let (r, tag) = output_checks "crc.serialiser" (s_n now) (s_bytes bs) (s_bool ok) (s_bool pn) in
    if r = [] then [Ok_ ["ref"; tag]] else r
  | _ -> raise (Bad "ref case")

let h_ser = function
  | [now; fails; all_failed; _ni; via; refb; werr; wpn; outb; ok; ppn] ->
    let now = s_n now in
    let r = ref [] in
    let nfail = List.length (lst fails) in
    (* the scripted failures: a writer that fails must make the serialisation fail, and what reached the
       writer before is a prefix of the bundle's encoding *)
    List.iter (fun f -> match lst f with
        | [_v; _lim; _via; _partial; failed; pn; prefix] ->
          if s_bool pn then r := Propfail ("crc.serialiser.panic-on-write-error", "serialisation into a failing writer panicked") :: !r
          else if not (s_bool failed) then r := Propfail ("crc.serialiser.write-error-swallowed", "serialisation into a failing writer reported success") :: !r;
          if not (s_bool prefix) then r := Mismatch "bytes written before the failure are not a prefix of the encoding" :: !r
        | _ -> raise (Bad "fail entry")) (lst fails);
    ignore all_failed;
    if s_bool wpn then r := Propfail ("crc.serialiser.panic", "serialisation panicked") :: !r
    else if not (s_bool werr) then r := Propfail ("crc.serialiser.fails-after-failure", "serialisation into a healthy writer failed after a failed one") :: !r
    else begin
      let (vs, tag) = output_checks "crc.serialiser-after-failure" now (s_bytes outb) (s_bool ok) (s_bool ppn) in
      r := vs @ !r;
      if vs = [] && atom outb <> atom refb then begin
        (* both satisfy the CRC equation and are accepted: only the order of map entries may differ *)
        match dec_bundle now (s_bytes outb), dec_bundle now (s_bytes refb) with
        | Some (b1, _), Some (b2, _) when D_bundle.has_multi_map b1 && D_bundle.dump_bundle b1 = D_bundle.dump_bundle b2 -> ()
        | _ -> r := Propfail ("crc.serialiser-after-failure.output-differs", "the same bundle is serialised differently after a failed serialisation") :: !r
      end;
      ignore tag
    end;
    if !r = [] then [Ok_ ["ser"; Printf.sprintf "fails=%d" nfail; "via=" ^ atom via]] else !r
  | _ -> raise (Bad "ser case")

let h_conc = function
  | [now; g; iters; refb; wrongs; ser_errs; panics; intact_rej; intact_tries; flips] ->
    let now = s_n now in
    let r = ref [] in
    let (vs, _) = output_checks "crc.serialiser" now (s_bytes refb) true false in
    r := vs;
    List.iter (fun w -> match lst w with
        | [out; count] ->
          let a = D_crc.arr_of_bytes (s_bytes out) in
          (match judge_crcs a with
           | Crc_wrong (idx, t, written, computed) ->
             r := Propfail ("crc.concurrent.wrong-crc-written",
                            Printf.sprintf "%s time(s): block %d (CRC type %d) carries %x, the CRC of its bytes is %x" (atom count) idx t written computed) :: !r
           | _ ->
             r := Propfail ("crc.concurrent.output-differs",
                            Printf.sprintf "%s time(s) the output differs from the one produced alone" (atom count)) :: !r)
        | _ -> raise (Bad "wrong entry")) (lst wrongs);
    if s_int ser_errs > 0 then r := Propfail ("crc.concurrent.serialiser-error", Printf.sprintf "%d serialisations failed" (s_int ser_errs)) :: !r;
    if s_int panics > 0 then r := Propfail ("crc.concurrent.panic", Printf.sprintf "%d panics" (s_int panics)) :: !r;
    if s_int intact_rej > 0 then
      r := Propfail ("crc.concurrent.intact-rejected",
                     Printf.sprintf "the intact encoding was rejected %d of %d times" (s_int intact_rej) (s_int intact_tries)) :: !r;
    let nclaim = ref 0 in
    List.iter (fun f -> match lst f with
        | [enc; accepted; tries] ->
          (* claim only what the model (hence the theorem) rejects as well *)
          (match dec_bundle now (s_bytes enc) with
           | None ->
             incr nclaim;
             if s_int accepted > 0 then
               r := Propfail ("crc.concurrent.damaged-accepted",
                              Printf.sprintf "a damaged encoding was accepted %d of %d times" (s_int accepted) (s_int tries)) :: !r
           | Some _ -> r := Mismatch "model accepts a damaged encoding the implementation rejects when alone" :: !r)
        | _ -> raise (Bad "flip entry")) (lst flips);
    if !r = [] then [Ok_ ["conc"; "g=" ^ atom g; "iters=" ^ atom iters; Printf.sprintf "damaged=%d" !nclaim]] else !r
  | _ -> raise (Bad "conc case")

let () =
  register "C03state" "ref" h_ref;
  register "C03state" "ser" h_ser;
  register "C03state" "conc" h_conc
