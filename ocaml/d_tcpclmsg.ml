(* driver glue for Model/TcpclMsg.v : generators C17tcpclmsg (kinds rt, code, valid, stream) and
   C04tcpclmsg (kind dec) *)
open Model
open Conv
open Sexp
open Verdict

let msg_of_s s = match lst s with
  | [Atom "contact"; f] -> TmContact (s_n f)
  | [Atom "sess_init"; k; sm; tm; nid] -> TmSessInit (s_n k, s_n sm, s_n tm, s_bytes nid)
  | [Atom "sess_term"; f; c] -> TmSessTerm (s_n f, s_n c)
  | [Atom "xfer_segment"; f; t; d] -> TmXferSegment (s_n f, s_n t, s_bytes d)
  | [Atom "xfer_ack"; f; t; l] -> TmXferAck (s_n f, s_n t, s_n l)
  | [Atom "xfer_refuse"; c; t] -> TmXferRefuse (s_n c, s_n t)
  | [Atom "keepalive"] -> TmKeepalive
  | [Atom "msg_reject"; c; h] -> TmMsgReject (s_n c, s_n h)
  | _ -> raise (Bad ("tcpcl message: " ^ Sexp.to_string s))

let short_bytes d =
  let n = List.length d in
  if n <= 12 then hex_of_bytes d else Printf.sprintf "<%d bytes>" n

let show_msg = function
  | TmContact f -> Printf.sprintf "(contact %s)" (dec_of_n f)
  | TmSessInit (k, s, t, n) -> Printf.sprintf "(sess_init %s %s %s %s)" (dec_of_n k) (dec_of_n s) (dec_of_n t) (short_bytes n)
  | TmSessTerm (f, c) -> Printf.sprintf "(sess_term %s %s)" (dec_of_n f) (dec_of_n c)
  | TmXferSegment (f, t, d) -> Printf.sprintf "(xfer_segment %s %s %s)" (dec_of_n f) (dec_of_n t) (short_bytes d)
  | TmXferAck (f, t, l) -> Printf.sprintf "(xfer_ack %s %s %s)" (dec_of_n f) (dec_of_n t) (dec_of_n l)
  | TmXferRefuse (c, t) -> Printf.sprintf "(xfer_refuse %s %s)" (dec_of_n c) (dec_of_n t)
  | TmKeepalive -> "(keepalive)"
  | TmMsgReject (c, h) -> Printf.sprintf "(msg_reject %s %s)" (dec_of_n c) (dec_of_n h)

let type_name = function
  | TmContact _ -> "contact" | TmSessInit _ -> "sess_init" | TmSessTerm _ -> "sess_term"
  | TmXferSegment _ -> "xfer_segment" | TmXferAck _ -> "xfer_ack" | TmXferRefuse _ -> "xfer_refuse"
  | TmKeepalive -> "keepalive" | TmMsgReject _ -> "msg_reject"

(* the enumerated code sets of RFC 9174, written out here independently of the model *)
let spec_set = function
  | "type" | "type.zeros" -> [1; 2; 3; 4; 5; 6; 7; 0x64]
  | "sess_term.reason" -> [0; 1; 2; 3; 4; 5]
  | "xfer_refuse.reason" -> [0; 1; 2; 3; 4; 5; 6]
  | "msg_reject.reason" -> [1; 2; 3]
  | "contact.magic0" -> [0x64] | "contact.magic1" -> [0x74] | "contact.magic2" -> [0x6e] | "contact.magic3" -> [0x21]
  | "contact.version" -> [4]
  | "contact.flags" -> List.init 256 (fun i -> i)
  | f -> raise (Bad ("code field " ^ f))

(* an observed read: (ok value left) | (err) | (panic) *)
type obs = OOk of tm_msg * int | OErr | OPanic
let obs_of_s s = match lst s with
  | [Atom "ok"; v; l] -> OOk (msg_of_s v, s_int l)
  | [Atom "err"] -> OErr
  | [Atom "panic"] -> OPanic
  | _ -> raise (Bad "read result")
let show_obs = function
  | OOk (m, l) -> Printf.sprintf "ok %s left %d" (show_msg m) l
  | OErr -> "err" | OPanic -> "panic"
let obs_of_model (o : tm_msg tm_out) = match fst o with
  | TmOk (m, r) -> OOk (m, List.length r)
  | TmErr -> OErr
  | TmPanic -> OPanic
let obs_eq a b = match a, b with
  | OOk (m, l), OOk (m', l') -> tm_msg_eqb m m' && l = l'
  | OErr, OErr | OPanic, OPanic -> true
  | _ -> false

(* which code field of a message value is outside its enumerated set (None: all valid) *)
let bad_code m =
  let inset f c = List.mem (int_of_n c) (spec_set f) in
  match m with
  | TmSessTerm (_, c) when not (inset "sess_term.reason" c) -> Some "sess_term.reason"
  | TmXferRefuse (c, _) when not (inset "xfer_refuse.reason" c) -> Some "xfer_refuse.reason"
  | TmMsgReject (c, _) when not (inset "msg_reject.reason" c) -> Some "msg_reject.reason"
  | _ -> None

(* (case n rt value trailer | marshal read unmarshal) *)
let rt = function
  | [v; trailer; marshal; rd; unm] ->
    let m = msg_of_s v and trailer = s_bytes trailer in
    let r = ref [] in
    let add x = r := x :: !r in
    let wf = tm_wf m in
    (match lst marshal with
     | [Atom "ok"; bs] ->
       let bs = s_bytes bs in
       if tm_enc m <> bs then add (Mismatch ("Marshal: model " ^ short_bytes (tm_enc m) ^ " impl " ^ short_bytes bs));
       let input = bs @ trailer in
       let mo = obs_of_model (tm_read input) and io = obs_of_s rd and uo = obs_of_s unm in
       if not (obs_eq mo io) then
         add (Mismatch (Printf.sprintf "ReadMessage: model %s, impl %s" (show_obs mo) (show_obs io)));
       if not (obs_eq io uo) then
         add (Mismatch (Printf.sprintf "Unmarshal %s differs from ReadMessage %s" (show_obs uo) (show_obs io)));
       (* property, on the implementation's own output *)
       (match bad_code m with
        | Some field ->
          (match io with
           | OOk _ -> add (Propfail ("tcpclmsg.code.accepted." ^ field, "decoder accepts " ^ show_msg m))
           | _ -> ())
        | None ->
          if wf then
            (match io with
             | OOk (m', l) when tm_msg_eqb m m' && l = List.length trailer -> ()
             | _ -> add (Propfail ("tcpclmsg.roundtrip." ^ type_name m,
                                   Printf.sprintf "%s encodes to %s, which reads back as %s (%d bytes behind it)"
                                     (show_msg m) (short_bytes bs) (show_obs io) (List.length trailer)))))
     | _ ->
       add (Mismatch "Marshal failed");
       if wf then add (Propfail ("tcpclmsg.roundtrip." ^ type_name m, "Marshal fails on " ^ show_msg m)));
    if !r = [] then [Ok_ ["rt"; type_name m; (if wf then (if bad_code m = None then "wf" else "badcode") else "beyond-limit")]] else !r
  | _ -> raise (Bad "rt case")

(* (case n code field b input | read) *)
let code = function
  | [field; b; input; rd] ->
    let field = s_sym field and b = s_int b and input = s_bytes input in
    let r = ref [] in
    let add x = r := x :: !r in
    let is_contact = String.length field > 7 && String.sub field 0 7 = "contact" in
    let mo = obs_of_model (if is_contact then tm_dec_contact input else tm_read input) and io = obs_of_s rd in
    if not (obs_eq mo io) then
      add (Mismatch (Printf.sprintf "%s=%d: model %s, impl %s" field b (show_obs mo) (show_obs io)));
    let inset = List.mem b (spec_set field) in
    (match io with
     | OOk _ when not inset ->
       add (Propfail ("tcpclmsg.code.accepted." ^ field, Printf.sprintf "value %d accepted: %s" b (show_obs io)))
     | (OErr | OPanic) when inset && field <> "type.zeros" ->
       add (Propfail ("tcpclmsg.code.rejected." ^ field, Printf.sprintf "enumerated value %d rejected" b))
     | _ -> ());
    if !r = [] then [Ok_ ["code"; field; (match io with OOk _ -> "accepted" | _ -> "rejected")]] else !r
  | _ -> raise (Bad "code case")

(* (case n valid field b | bool) *)
let valid = function
  | [field; b; res] ->
    let field = s_sym field and b = s_int b and res = s_bool res in
    let mv = (match field with
        | "sess_term.reason" -> tm_term_valid | "xfer_refuse.reason" -> tm_refuse_valid
        | "msg_reject.reason" -> tm_reject_valid | _ -> raise (Bad "valid field")) (n_of_int b) in
    let r = ref [] in
    if mv <> res then r := Mismatch (Printf.sprintf "IsValid %s %d: model %b impl %b" field b mv res) :: !r;
    let inset = List.mem b (spec_set field) in
    if res && not inset then r := Propfail ("tcpclmsg.code.accepted." ^ field, Printf.sprintf "IsValid(%d) = true" b) :: !r;
    if (not res) && inset then r := Propfail ("tcpclmsg.code.rejected." ^ field, Printf.sprintf "IsValid(%d) = false" b) :: !r;
    if !r = [] then [Ok_ ["valid"; field]] else !r
  | _ -> raise (Bad "valid case")

let rec is_prefix a b = match a, b with
  | [], _ -> true
  | x :: a, y :: b -> tm_msg_eqb x y && is_prefix a b
  | _ -> false
let rec same_msgs a b = match a, b with
  | [], [] -> true
  | x :: a, y :: b -> tm_msg_eqb x y && same_msgs a b
  | _ -> false

(* (case n stream mode values bytes buffered | msgs end left) *)
let stream = function
  | [mode; vals; bs; _buffered; msgs; oend; left] ->
    let mode = s_sym mode and vals = List.map msg_of_s (lst vals) and bs = s_bytes bs in
    let msgs = List.map msg_of_s (lst msgs) and oend = s_sym oend and left = s_int left in
    let r = ref [] in
    let add x = r := x :: !r in
    let ((mm, me), _) = tm_stream bs in
    let me = (match me with TmEof -> "eof" | TmBad -> "err" | TmCrash -> "panic") in
    if not (same_msgs mm msgs && me = oend) then
      add (Mismatch (Printf.sprintf "stream: model %d messages end %s, impl %d messages end %s"
                       (List.length mm) me (List.length msgs) oend));
    (* property: what was written is what is read, message by message *)
    let misaligned detail = add (Propfail ("tcpclmsg.stream.misaligned", detail)) in
    (match mode with
     | "clean" ->
       if not (same_msgs vals msgs && oend = "eof" && left = 0) then
         misaligned (Printf.sprintf "%d messages written, %d read back, end %s, %d bytes left"
                       (List.length vals) (List.length msgs) oend left)
     | "tail" ->
       if not (is_prefix vals msgs) then
         misaligned (Printf.sprintf "%d messages written before the garbage, the first %d read back differ"
                       (List.length vals) (List.length msgs))
     | _ ->
       if not (is_prefix msgs vals) then
         misaligned (Printf.sprintf "cut stream: the %d messages read are not the first of the %d written"
                       (List.length msgs) (List.length vals)));
    if !r = [] then [Ok_ ["stream"; mode; oend; Printf.sprintf "n=%d" (min (List.length msgs) 8)]] else !r
  | _ -> raise (Bad "stream case")

(* ---- C04 ---- *)

(* fixed-size scratch the account leaves out: binary.Read buffers, MultiReader, error values, a fresh
   message value, io.Discard's pooled 8 KiB block when the pool was emptied *)
let alloc_slack = 20000

let be_at (a : int array) off w =
  (* big-endian value as float (only compared against lengths) *)
  let v = ref 0.0 in
  for i = off to off + w - 1 do v := !v *. 256.0 +. float_of_int a.(i) done; !v

(* the wire field a hostile length sits in, from the input alone *)
let site_of (input : n list) =
  let a = Array.of_list (List.map int_of_n input) in
  let len = Array.length a in
  if len = 0 then "empty" else
  match a.(0) with
  | 1 ->
    if len < 14 then "xfer_segment"
    else if be_at a 10 4 > float_of_int (len - 14) then "xfer_segment.extlen"
    else "xfer_segment.datalen"
  | 7 ->
    if len < 21 then "sess_init"
    else if be_at a 19 2 > float_of_int (len - 21) then "sess_init.nodeidlen"
    else "sess_init.extlen"
  | 2 -> "xfer_ack" | 3 -> "xfer_refuse" | 4 -> "keepalive" | 5 -> "sess_term" | 6 -> "msg_reject"
  | 0x64 -> "contact"
  | _ -> "type"

(* (case n dec label input | class alloc left value) *)
let dec = function
  | [label; input; cls; alloc; left; v] ->
    let label = s_sym label and input = s_bytes input and cls = s_sym cls in
    let alloc = int_of_n (s_n alloc) and left = s_int left in
    let len = List.length input in
    let r = ref [] in
    let add x = r := x :: !r in
    let site = site_of input in
    let mo = tm_read input in
    let mobs = obs_of_model mo and malloc = int_of_n (snd mo) in
    let oo = tm_read_orig input in
    let like_orig () =
      let same_class = (match fst oo, cls with
          | TmOk _, "ok" | TmErr, "err" | TmPanic, ("panic" | "crash") -> true
          | TmErr, "oom" -> true
          | _ -> false) in
      if same_class && (fst oo <> fst mo || snd oo <> snd mo)
      then " (the implementation behaves like the decoder before the repairs)" else "" in
    (match cls with
     | "ok" | "err" ->
       let io = if cls = "ok" then OOk (msg_of_s v, left) else OErr in
       if not (obs_eq mobs io) then
         add (Mismatch (Printf.sprintf "ReadMessage: model %s, impl %s%s" (show_obs mobs) (show_obs io) (like_orig ())));
       if alloc > malloc + alloc_slack then
         add (Mismatch (Printf.sprintf "allocates %d bytes, the model accounts for %d (+%d)%s" alloc malloc alloc_slack (like_orig ())))
     | _ -> ());
    (* property: a value or an error, no crash, no hang, allocation bounded by the bytes that arrived *)
    let bound = int_of_n (tm_alloc_bound (n_of_int len)) + alloc_slack in
    (match cls with
     | "panic" | "crash" ->
       add (Propfail ("tcpclmsg.panic." ^ site, Printf.sprintf "ReadMessage panics on %d bytes%s" len (like_orig ())))
     | "oom" ->
       add (Propfail ("tcpclmsg.alloc.unbounded." ^ site,
                      Printf.sprintf "out of memory while decoding %d bytes%s" len (like_orig ())))
     | "timeout" ->
       add (Propfail ("tcpclmsg.hang." ^ site, Printf.sprintf "no answer for %d bytes" len))
     | _ ->
       if alloc > bound then
         add (Propfail ("tcpclmsg.alloc.unbounded." ^ site,
                        Printf.sprintf "%d bytes allocated for %d bytes of input (bound %d)%s" alloc len bound (like_orig ()))));
    if !r = [] then [Ok_ ["dec"; label; cls; site]] else !r
  | _ -> raise (Bad "dec case")

let () =
  register "C17tcpclmsg" "rt" rt;
  register "C17tcpclmsg" "code" code;
  register "C17tcpclmsg" "valid" valid;
  register "C17tcpclmsg" "stream" stream;
  register "C04tcpclmsg" "dec" dec
