open Model
open Conv
open Sexp
open Verdict

(* C04late: decoders fed after / while their owner is closed, and at the first use in a process by
   several goroutines.  The property's demand is the same everywhere: the process survives, no decoder
   (nor the node's own handling of the value the decoder returned for a VALID input) panics, memory
   follows the bytes that arrived.  Scenarios whose waits ran out are inconclusive (tag), never failures. *)

let late_str s = D_bundle.str_of_bytes (s_bytes s)

let h_mtcp = function
  | [_now; mode; nconn; pre; script; res; detail] ->
    let mode = s_sym mode in
    let state = if mode = "open" then "open" else "owner-closed" in
    (match lst res with
     | [Atom "died"] ->
       [Propfail ("late.died.mtcp." ^ state,
                  Printf.sprintf "frames on %s connection(s), mode %s: the process died (%s)" (atom nconn) mode (late_str detail))]
     | [Atom "survived"; recv; _eofs; sent; alloc] ->
       let r = ref [] in
       let sent = s_int sent and alloc = s_int alloc in
       if alloc > 4 * 1048576 + 64 * sent then
         r := Propfail ("late.alloc.mtcp." ^ state, Printf.sprintf "%d bytes allocated for %d bytes sent" alloc sent) :: !r;
       (* frames with a non-zero length head and a valid bundle behind it, on a running server: the length is
          not used (Model/Mtcp: the bundle is delimited by its own encoding), every bundle is handed up *)
       (match lst script with
        | [List [Atom "lens"; k]] when mode = "open" ->
          if s_int recv <> s_int pre + s_int k then
            r := Mismatch (Printf.sprintf "%d bundles handed up, %d frames sent" (s_int recv) (s_int pre + s_int k)) :: !r
        | _ -> ());
       if !r = [] then [Ok_ ["mtcp"; mode; "survived"]] else !r
     | (Atom ("inconclusive" | "unavailable" | "timeout" | "badinput") as a) :: _ -> [Ok_ ["mtcp"; mode; "inconclusive-" ^ atom a]]
     | _ -> raise (Bad "mtcp result"))
  | _ -> raise (Bad "mtcp case")

let h_firstuse = function
  | [now; n; _warm; bundles; res; detail] ->
    let now = s_n now in
    let ins = Array.of_list (List.map s_bytes (lst bundles)) in
    (match lst res with
     | [Atom "died"] ->
       [Propfail ("firstuse.died", Printf.sprintf "%s decoders at the first use in the process: the process died (%s)" (atom n) (late_str detail))]
     | [Atom "survived"; rs] ->
       let r = ref [] in
       List.iteri (fun i x ->
           let bytes = ins.(i mod Array.length ins) in
           match lst x with
           | [Atom "panic-decode"; _] -> r := Propfail ("firstuse.panic.decoder", "ParseBundle panicked") :: !r
           | [Atom "panic-consumer"; _] ->
             r := Propfail ("firstuse.panic.consumer",
                            "the node's handling of a received VALID bundle (lifetime check / administrative record) panicked on the decoder's value") :: !r
           | [Atom cls; dump] ->
             (* near the expiry instant the verdict may legitimately differ: bundles here live for a day *)
             (match dec_bundle now bytes, cls with
              | Some (b, _), "ok" ->
                if D_bundle.dump_bundle b <> Sexp.to_string dump then r := Mismatch ("decoded structure differs: model " ^ D_bundle.dump_bundle b) :: !r
              | None, "err" -> ()
              | Some _, _ -> r := Mismatch "model accepts, implementation rejects" :: !r
              | None, _ -> r := Mismatch "implementation accepts, model rejects" :: !r)
           | _ -> raise (Bad "firstuse entry")) (lst rs);
       if !r = [] then [Ok_ ["firstuse"; "n=" ^ atom n]] else !r
     | (Atom ("inconclusive" | "unavailable" | "timeout" | "badinput") as a) :: _ -> [Ok_ ["firstuse"; "inconclusive-" ^ atom a]]
     | _ -> raise (Bad "firstuse result"))
  | _ -> raise (Bad "firstuse case")

let () =
  register "C04late" "mtcp" h_mtcp;
  register "C04late" "firstuse" h_firstuse
