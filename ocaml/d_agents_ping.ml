(* C07 - ping bursts (generator C07ping): the property's own checker on what the implementation did
   (every receive returned, HasEndpoint answered, every pong arrived exactly once) and a run of the extracted
   sub-step multiplexer model (Model/MuxConc.v) on the same configuration under a canonical scheduler: by
   C07_mux_no_deadlock every schedule ends settled, with every ping handed to the PingAgent and every pong
   worked off by the AgentManager's handler exactly once. *)
open Model
open Conv
open Sexp
open Verdict

let ni = n_of_int
let ints s = List.map s_int (lst s)

(* first enabled program label, until nothing is enabled *)
let rec mxc_drive cfg s fuel =
  if fuel = 0 then s else
    match List.find_opt (fun t -> (not (mxc_is_env t)) && mxc_step cfg s t <> None) (mxc_labels s) with
    | Some t -> (match mxc_step cfg s t with Some s' -> mxc_drive cfg s' (fuel - 1) | None -> s)
    | None -> s

let ping_ep = 7 and rpt_ep = 100
let model_run ~old k local =
  let b i = { mxb_id = ni i; mxb_dst = ni ping_ep; mxb_rpt = ni rpt_ep } in
  let pong i = { mxb_id = ni i; mxb_dst = ni rpt_ep; mxb_rpt = ni rpt_ep } in
  let is = List.init k (fun i -> i) in
  let ping = if old then mxc_kind_ping_old (ni ping_ep) else mxc_kind_ping (ni ping_ep) (List.map pong is) in
  let chs = ping :: (if local then [mxc_kind_recv (ni rpt_ep)] else []) in
  let cls = [(List.map (fun i -> MxDeliver (b i)) is, false); ([], true)] in
  (* the agents are registered before the first ping arrives (Register + start: four steps each) *)
  let reg = List.concat (List.mapi (fun c _ -> let t = MxTG (nat_of_int c) in [t; t; t; t]) chs) in
  let s0 = (match mxc_run mxc_real (mxc_init chs cls) reg with Some s -> s | None -> raise (Bad "model: register")) in
  let s = mxc_drive mxc_real s0 1000000 in
  let got c = List.map (fun m -> int_of_n m.mxb_id) (mxc_getc s (nat_of_int c)).mxh_log in
  let handled = List.concat_map (fun cl -> List.filter_map (function
      | MxNoAgent (m, _) | MxSent m when int_of_n m.mxb_dst = rpt_ep -> Some (int_of_n m.mxb_id)
      | _ -> None) cl.mxl_res) s.mxs_cls in
  (mxc_settled s, got 0, (if local then got 1 else []), List.sort compare handled)

let ping = function
  | Atom mode :: k :: local :: hold :: rest ->
    let k = s_int k and local = s_bool local and hold = s_int hold in
    let res = ref [] in
    let add v = res := v :: !res in
    let where = Printf.sprintf "%s k=%d local=%b hold=%d" mode k local hold in
    let pongs = ref [] and recv = ref 0 in
    List.iter (fun f -> match lst f with
        | Atom "recv" :: [n] -> recv := s_int n
        | Atom "pongs" :: l -> pongs := List.map s_int l
        | [Atom "probe"; _] -> ()
        | [Atom "stuck"] -> ()
        | [Atom "stuck"; what] ->
          add (Propfail ("c07.ping.stuck", Printf.sprintf "%s: %s does not return (%d of %d pings taken): the multiplexer, the PingAgent and the AgentManager's handler wait for each other" where (s_sym what) !recv k))
        | Atom "err" :: l -> List.iter (fun e -> add (Mismatch ("harness anomaly: " ^ s_sym e ^ " " ^ where))) l
        | _ -> raise (Bad "ping field")) rest;
    let all = List.init k (fun i -> i) in
    let occ i = List.length (List.filter (fun j -> j = i) !pongs) in
    (match List.filter (fun i -> occ i = 0) all with
     | [] -> ()
     | miss -> add (Propfail ("c07.ping.pong-missing", Printf.sprintf "%s: no pong for ping(s) %s" where
                                (String.concat "," (List.map string_of_int miss)))));
    (match List.filter (fun i -> occ i > 1) all with
     | [] -> ()
     | dup -> add (Propfail ("c07.ping.pong-twice", Printf.sprintf "%s: more than one pong for ping(s) %s" where
                               (String.concat "," (List.map string_of_int dup)))));
    if List.exists (fun i -> i < 0 || i >= k) !pongs then
      add (Mismatch ("a pong that belongs to no ping: " ^ where));
    (* the model on the same configuration *)
    let (settled, got, rcv, handled) = model_run ~old:false k local in
    if not settled then add (Mismatch ("model: the canonical schedule does not end settled: " ^ where));
    if got <> all then add (Mismatch ("model: the PingAgent is not handed every ping once, in order: " ^ where));
    if handled <> all then add (Mismatch ("model: the handler does not work every pong off once: " ^ where));
    if local && List.sort compare rcv <> all then add (Mismatch ("model: the local recipient does not get every pong once: " ^ where));
    if !res = [] && List.sort compare !pongs <> (if local then List.sort compare rcv else handled) then
      add (Mismatch ("pongs of the implementation differ from the model's: " ^ where));
    (* the agent as it was (answering from its reader goroutine): does the model's canonical schedule survive? *)
    let (settled_old, _, _, _) = model_run ~old:true (min k 6) local in
    if !res = [] then
      [Ok_ [mode; (if local then "pong-local" else "pong-remote"); Printf.sprintf "hold%d" hold;
            (if settled_old then "old-kind-canonical-settled" else "old-kind-canonical-stuck")]]
    else List.rev !res
  | _ -> raise (Bad "ping case")

let () = register "C07ping" "ping" ping
