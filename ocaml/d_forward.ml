(* C06 - driver glue for the forwarding model (Model/Forward.v) and the property checker.
   case: (fwd stream alg node accepted-dump accepted-primary-bytes (round ...))
   round: (kind now_lo now_hi res_lo res_hi (send ...) knows-after peer-up constraints allowed known-before)
          kind = recv | retry | clean | dup (the same bundle handed in again; res_lo/res_hi of every
          round count from the FIRST reception of the copy that is stored)
   send:  (sent dump valid primary-bytes ok trailing) | (unparsable ok) *)
open Model
open Conv
open Sexp
open Verdict
module DB = D_bundle

type sent = { s_b : bundle; s_dump : string; s_valid : bool; s_pri : string; s_trail : int }
type send = Sent of sent | Unparsable
type round = { kind : string; now_lo : n; now_hi : n; res_lo : n; res_hi : n; sends : send list; knows : bool; peer_up : bool; cons : string list; allowed : bool; known_before : bool }

let send_of_s s = match lst s with
  | [Atom "sent"; d; valid; pri; _ok; trail] ->
    Sent { s_b = DB.bundle_of_dump d; s_dump = Sexp.to_string d; s_valid = s_bool valid; s_pri = atom pri; s_trail = s_int trail }
  | Atom "unparsable" :: _ -> Unparsable
  | _ -> raise (Bad "send")

let round_of_s s = match lst s with
  | [k; nl; nh; rl; rh; ss; kn; pu; cs; al; kb] ->
    { known_before = s_bool kb; kind = atom k; now_lo = s_n nl; now_hi = s_n nh; res_lo = s_n rl; res_hi = s_n rh;
      sends = List.map send_of_s (lst ss); knows = s_bool kn; peer_up = s_bool pu; cons = List.map atom (lst cs); allowed = s_bool al }
  | _ -> raise (Bad "round")

let n6 = n_of_int 6 and n7 = n_of_int 7 and n10 = n_of_int 10 and n192 = n_of_int 192 and n1 = n_of_int 1
let n255 = n_of_int 255
let block_of_type t (b : bundle) = List.find_opt (fun c -> c_type c = t) b.b_blocks
let blocks_of_type t (b : bundle) = List.filter (fun c -> c_type c = t) b.b_blocks
let age_of b = match block_of_type n7 b with Some { c_val = XAge a; _ } -> Some a | _ -> None
let hop_of b = match block_of_type n10 b with Some { c_val = XHop (l, c); _ } -> Some (l, c) | _ -> None
let spray_of b = match block_of_type n192 b with Some { c_val = XSpray k; _ } -> Some k | _ -> None
let shell_eq (a : cblock) (b : cblock) = fw_cblock_eqb_shell a b

type cls = CSend | CPurge | CLoad
let cls_of = function FwSend _ -> CSend | FwRefuse FwLoad -> CLoad | FwRefuse _ -> CPurge
let reason_tag = function
  | FwSend _ -> "send" | FwRefuse FwHopLimit -> "refuse-hop" | FwRefuse FwLifetime -> "refuse-lifetime"
  | FwRefuse FwAge -> "refuse-age" | FwRefuse FwUnsupported -> "refuse-unsupported" | FwRefuse FwLoad -> "refuse-load"

(* ---------------- the property's own checker, on the implementation's output ---------------- *)
let pf r key detail = r := Propfail (key, detail) :: !r

(* one bundle handed to a convergence layer *)
let check_send r ~(alg : string) ~(node : eid) ~(acc : bundle) ~(acc_pri : string) ~(rd : round) (s : sent) =
  let before = List.length !r in
  let retry = rd.kind <> "recv" in
  let b' = s.s_b in
  (* primary block and payload *)
  if b'.b_pri <> acc.b_pri || s.s_pri <> acc_pri then pf r "forward.primary.changed" "primary block of the transmitted bundle differs from the accepted one";
  (match block_of_type n1 acc, block_of_type n1 b' with
   | Some p, Some p' -> if p <> p' then pf r "forward.payload.changed" "payload block differs"
   | _ -> pf r "forward.payload.changed" "payload block missing");
  (* hop count *)
  (match hop_of acc, blocks_of_type n10 b' with
   | None, [] -> ()
   | None, _ -> pf r "forward.block.changed" "hop count block appeared"
   | Some (l, c), [ ({ c_val = XHop (l', c'); _ } as hb') ] ->
     let hb = match block_of_type n10 acc with Some x -> x | None -> hb' in
     if N.ltb l (N.add c n1) then
       pf r "forward.hop.limit-exceeded-sent"
         (Printf.sprintf "accepted with hop count %s of limit %s, transmitted (with count %s)" (dec_of_n c) (dec_of_n l) (dec_of_n c'))
     else if c' <> N.add c n1 || l' <> l then
       pf r "forward.hop.not-plus-one" (Printf.sprintf "hop count %s/%s became %s/%s" (dec_of_n c) (dec_of_n l) (dec_of_n c') (dec_of_n l'));
     if not (shell_eq hb hb') then pf r "forward.block.changed" "hop count block's number / flags / CRC type changed"
   | Some _, _ -> pf r "forward.block.changed" "hop count block lost or duplicated");
  (* bundle age *)
  (match age_of acc, blocks_of_type n7 b' with
   | None, [] -> ()
   | None, _ -> pf r "forward.block.changed" "bundle age block appeared"
   | Some a, [ ({ c_val = XAge a'; _ } as ab') ] ->
     let ab = match block_of_type n7 acc with Some x -> x | None -> ab' in
     if N.ltb (N.add a rd.res_hi) a' then
       pf r "forward.age.wrong-unit"
         (Printf.sprintf "age %s ms + residence in [%s, %s] ms was transmitted as %s" (dec_of_n a) (dec_of_n rd.res_lo) (dec_of_n rd.res_hi) (dec_of_n a'))
     else if N.ltb a' (N.add a rd.res_lo) then
       pf r "forward.age.residence-lost"
         (Printf.sprintf "age %s ms + residence in [%s, %s] ms was transmitted as only %s" (dec_of_n a) (dec_of_n rd.res_lo) (dec_of_n rd.res_hi) (dec_of_n a'));
     if not (shell_eq ab ab') then pf r "forward.block.changed" "bundle age block's number / flags / CRC type changed"
   | Some _, _ -> pf r "forward.block.changed" "bundle age block lost or duplicated");
  (* previous node *)
  (match blocks_of_type n6 b' with
   | [ ({ c_val = XPrev e; _ } as pb') ] ->
     if not (eid_eqb e node) then pf r "forward.prevnode.wrong" "previous node block does not name this node";
     (match block_of_type n6 acc with
      | Some pb -> if not (shell_eq pb pb') then pf r "forward.block.changed" "previous node block's number / flags / CRC type changed"
      | None ->
        if List.length (List.filter (fun c -> c.c_num = pb'.c_num) b'.b_blocks) <> 1 then
          pf r "forward.block.changed" "new previous node block reuses the number of another transmitted block")
   | _ -> pf r "forward.prevnode.wrong" "no (or more than one) previous node block");
  (* every other block *)
  let owned t = alg = "binary_spray" && t = n192 in
  let special t = t = n6 || t = n7 || t = n10 || t = n1 || owned t in
  List.iter (fun c ->
      if not (special (c_type c)) then begin
        if fw_removable c then begin
          if List.exists (fun c' -> c_type c' = c_type c) b'.b_blocks then
            pf r (if retry then "forward.retry.removed-block-reappears" else "forward.block.changed")
              (Printf.sprintf "unsupported block of type %s flagged for removal was transmitted%s" (dec_of_n (c_type c)) (if retry then " on a retry" else ""))
        end else if not (List.mem c b'.b_blocks) then
          pf r "forward.block.changed" (Printf.sprintf "block %s of type %s changed or lost" (dec_of_n c.c_num) (dec_of_n (c_type c)))
      end) acc.b_blocks;
  List.iter (fun c' ->
      if not (special (c_type c')) && not (List.mem c' acc.b_blocks) then
        pf r "forward.block.changed" (Printf.sprintf "block %s of type %s is not a block of the accepted bundle" (dec_of_n c'.c_num) (dec_of_n (c_type c')))) b'.b_blocks;
  (* lifetime *)
  let p = acc.b_pri in
  if p.p_time <> N0 then begin
    if lifetime_exceeded rd.now_lo acc then pf r "forward.expired.sent" "lifetime over by creation time, transmitted all the same"
  end else begin
    match age_of acc with
    | Some a -> if N.leb p.p_life (N.add a rd.res_lo) then pf r "forward.expired.sent" "lifetime over by age, transmitted all the same"
    | None -> pf r "forward.expired.sent" "clock-less bundle without an age block transmitted"
  end;
  if List.length !r = before && (not s.s_valid || s.s_trail <> 0) && check_valid rd.now_lo acc then
    pf r "forward.sent.invalid" "transmitted bytes do not parse as a valid bundle"

(* must the node refuse this bundle in this round, whatever the instant inside the brackets? *)
type must = MNo | MPurgeNow | MExpiredByTime
let must_refuse (acc : bundle) (rd : round) : must =
  let p = acc.b_pri in
  let hop = match hop_of acc with Some (l, c) -> N.ltb l (N.add c n1) | None -> false in
  let by_age = p.p_time = N0 && (match age_of acc with Some a -> N.leb p.p_life (N.add a rd.res_lo) | None -> true) in
  let by_time = p.p_time <> N0 && lifetime_exceeded rd.now_lo acc in
  if by_time && rd.kind <> "recv" then MExpiredByTime   (* the stored copy no longer loads: left to clean_store *)
  else if hop || by_age || by_time then MPurgeNow
  else MNo

(* ---------------- the case ---------------- *)
let fwd = function
  | [stream; alg; node; dump; pri; rounds] ->
    let stream = atom stream and alg = atom alg in
    let node = DB.s_eid node in
    let acc = DB.bundle_of_dump dump in
    let acc_pri = atom pri in
    let rounds = List.map round_of_s (lst rounds) in
    let r = ref [] in
    let tags = ref [stream; alg] in
    let tag t = if not (List.mem t !tags) then tags := t :: !tags in
    let mm s = r := Mismatch s :: !r in
    let stored = ref true in          (* the model's store state: the accepted bundle is still stored *)
    let undecided = ref false in      (* a round fell inside a bracket: the rest of the case is not judged *)
    let await_clean = ref false in    (* property: expired by time at a retry, must be gone after the next sweep *)
    let nretry = ref 0 in
    (* "accepted": valid when it arrived (what ParseBundle guarantees for anything a convergence layer
       delivers); the store-membership clause is judged for accepted bundles only - a bundle that was
       already invalid when it was pushed into the Core can never be loaded again *)
    let accepted = match rounds with rd :: _ -> check_valid rd.now_lo acc | [] -> false in
    tag (if accepted then "accepted" else "not-accepted");
    let run rd now res copies =
      fw_touch_result copies (if rd.kind = "recv" then fw_receive node now res acc else fw_retry node now res acc) in
    (* the same bundle handed in again: the timed model (fw_tstep) says whether it is a duplicate of
       the stored copy (ignored: state unchanged, nothing transmitted) or a new reception *)
    let dup_is_ignored rd =
      let st = if !stored then Some { ti_b = acc; ti_rx = N0 } else None in
      match fw_tstep node st (FwTRecv (acc, rd.res_lo, N0, rd.now_lo, None, true)) with
      | (Some it, []) when st = Some it -> true
      | _ -> false in
    let after_dup = ref false in
    List.iter (fun rd ->
        if !undecided then ()
        else if rd.kind = "dup" && dup_is_ignored rd then begin
          tag "dup-ignored"; after_dup := true;
          if not rd.known_before then mm "duplicate: model has the bundle stored, implementation did not know it";
          if not rd.knows then mm "duplicate of a stored bundle: model keeps the item, implementation dropped it";
          (* whatever is transmitted on this occasion is judged like any other transmission *)
          List.iter (function
              | Sent s -> check_send r ~alg ~node ~acc ~acc_pri ~rd:{ rd with kind = "retry" } s
              | Unparsable -> pf r "forward.sent.invalid" "transmitted bytes do not parse") rd.sends;
          if rd.sends <> [] then mm "duplicate of a stored bundle: the model transmits nothing, the implementation transmitted the bundle"
        end
        else if rd.kind = "clean" then begin
          if !stored then begin
            let e_lo = acc.b_pri.p_time <> N0 && fw_store_expired rd.now_lo acc
            and e_hi = acc.b_pri.p_time <> N0 && fw_store_expired rd.now_hi acc in
            if acc.b_pri.p_time = N0 then undecided := true
            else if e_lo <> e_hi then (tag "band-skip"; undecided := true)
            else begin
              if rd.knows = e_lo then mm (Printf.sprintf "clean_store: model %s, implementation %s" (if e_lo then "deletes" else "keeps") (if rd.knows then "keeps" else "deletes"));
              tag (if e_lo then "clean-deleted" else "clean-kept");
              stored := not e_lo
            end;
            if !await_clean && accepted && fw_store_expired rd.now_lo acc && rd.knows then
              pf r "forward.refused.still-stored" "expired bundle still stored after clean_store"
          end else if rd.knows then mm "clean: model has no item, implementation still knows the bundle"
        end else begin
          let rd = if rd.kind = "dup" then begin
              (* the bundle had left the store: a new reception of the same bytes *)
              tag "dup-new-reception"; after_dup := false; nretry := 0;
              if rd.known_before then mm "re-reception: model has no item, implementation knew the bundle";
              stored := true;
              { rd with kind = "recv" } end else rd in
          if rd.kind = "retry" then incr nretry;
          let pre = if rd.kind = "recv" then "recv" else if !after_dup then "retry-after-dup" else if !nretry >= 3 then "retry3+" else "retry" in
          (* forward not entered: at the reception the item then carries neither forward-pending nor
             contraindicated; at a retry the algorithm was asked just before *)
          let deferred =
            if rd.kind = "recv" then rd.sends = [] && rd.knows && not (List.mem "fp" rd.cons) && not (List.mem "ci" rd.cons)
            else not rd.allowed in
          if deferred && rd.sends <> [] then mm "dispatching not allowed by the algorithm, yet the bundle was transmitted";
          if not !stored then begin
            if rd.sends <> [] then mm "model: bundle no longer stored, implementation transmits it";
            if rd.knows then mm "model: bundle no longer stored, implementation knows it"
          end else if deferred then
            (* the routing algorithm did not allow dispatching (epidemic without any eligible peer): forward
               was not entered, nothing happened to the bundle *)
            tag (pre ^ "-deferred")
          else begin
            (* ---- property checker ---- *)
            let must = must_refuse acc rd in
            List.iter (function
                | Sent s -> check_send r ~alg ~node ~acc ~acc_pri ~rd s
                | Unparsable -> pf r "forward.sent.invalid" "transmitted bytes do not parse") rd.sends;
            (match must with
             | MPurgeNow -> if rd.knows && accepted then pf r "forward.refused.still-stored" "bundle that must be refused is still stored after the attempt"
             | MExpiredByTime -> await_clean := true
             | MNo -> ());
            (* ---- correspondence ---- *)
            if rd.sends = [] then begin
              let rs = [run rd rd.now_lo rd.res_lo None; run rd rd.now_lo rd.res_hi None; run rd rd.now_hi rd.res_lo None; run rd rd.now_hi rd.res_hi None] in
              let cs = List.map cls_of rs in
              if List.for_all (fun c -> c = List.hd cs) cs then begin
                (match List.hd cs with
                 | CSend ->
                   if not rd.knows then mm "model forwards (no refusal), implementation dropped the bundle without transmitting it";
                   if rd.peer_up then tag (pre ^ "-nosend-peer-up") else tag (pre ^ "-stored-no-peer")
                 | CPurge ->
                   if rd.knows then mm ("model " ^ reason_tag (List.hd rs) ^ " (purged), implementation still stores the bundle");
                   tag (pre ^ "-" ^ reason_tag (List.hd rs)); stored := false
                 | CLoad ->
                   if not rd.knows then mm "model: stored copy does not load and stays, implementation deleted it";
                   tag (pre ^ "-refuse-load"))
              end else (tag "band-skip"; undecided := true)
            end else begin
              List.iter (function
                  | Unparsable -> mm "transmitted bytes unparsable"
                  | Sent s ->
                    let res = match age_of acc, age_of s.s_b with
                      | Some a, Some a' when N.leb a a' -> N.sub a' a
                      | _ -> rd.res_lo in
                    if N.ltb res rd.res_lo || N.ltb rd.res_hi res then
                      mm (Printf.sprintf "residence %s ms outside the measured bracket [%s, %s]" (dec_of_n res) (dec_of_n rd.res_lo) (dec_of_n rd.res_hi));
                    let copies = if alg = "binary_spray" then spray_of s.s_b else None in
                    let r_lo = run rd rd.now_lo res copies and r_hi = run rd rd.now_hi res copies in
                    let matches = function FwSend b' -> DB.dump_bundle b' = s.s_dump | _ -> false in
                    if matches r_lo || matches r_hi then begin
                      tag (pre ^ "-send");
                      if hop_of acc <> None then tag "has-hop";
                      if age_of acc <> None then tag (if N.ltb (n_of_int 1000) res then "age-res>1s" else if N.ltb (n_of_int 20) res then "age-res>20ms" else "age-res~0");
                      if block_of_type n6 acc <> None then tag "prev-replaced" else tag "prev-added";
                      if List.exists fw_removable acc.b_blocks then tag "unknown-removed";
                      if List.exists (fun c -> fw_unknown c && not (fw_removable c)) acc.b_blocks then tag "unknown-kept";
                      if copies <> None then tag "spray-block";
                      if acc.b_pri.p_time = N0 then tag "zero-time"
                    end else begin
                      match r_lo, r_hi with
                      | FwSend b', _ | _, FwSend b' -> mm ("transmitted bundle differs from the model's: model " ^ DB.dump_bundle b')
                      | _ -> mm ("model " ^ reason_tag r_lo ^ ", implementation transmitted the bundle")
                    end) rd.sends;
              stored := rd.knows
            end
          end
        end) rounds;
    if !r = [] then [Ok_ (List.rev !tags)] else !r
  | _ -> raise (Bad "fwd case")

let () = register "C06forward" "fwd" fwd
