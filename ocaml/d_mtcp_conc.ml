open Conv
open Sexp
open Verdict

(* C12mtcpconc: concurrent senders on one MTCP client: what arrives is exactly what was sent *)
let conc = function
  | [Atom "unavailable"] -> [Ok_ ["conc-unavailable"]]
  | [Atom "ok"; sl; rl; nerr; gone] ->
    let s = List.map atom (lst sl) and r = List.map atom (lst rl) in
    let res = ref [] in
    if s_int nerr > 0 || s_int gone > 0 then
      res := Propfail ("mtcp.concurrent.error", "a Send over an intact connection errored while other goroutines were sending") :: !res;
    if s <> r then
      res := Propfail ("mtcp.concurrent.stream-differs",
                       Printf.sprintf "concurrent senders on one connection: %d bundles sent, %d handed up, multisets differ" (List.length s) (List.length r)) :: !res;
    if !res = [] then [Ok_ ["conc"]] else !res
  | _ -> raise (Bad "conc case")

let () = register "C12mtcpconc" "conc" conc
