open Model
open Conv
open Sexp
open Verdict

let frag_of_s s = match lst s with
  | [t; i; p] -> { f_tid = s_n t; f_ident = s_n i; f_payload = s_bytes p }
  | _ -> raise (Bad "fragment")
let show_frag f = Printf.sprintf "(%s %s %s)" (dec_of_n f.f_tid) (dec_of_n f.f_ident) (hex_of_bytes f.f_payload)

(* (case n hdr tid seq st en fa payload | obsfrag obsseq obsst obsen obsfa obsbytes obsparse obsfail) *)
let hdr = function
  | [tid; seq; st; en; fa; pl; ofr; oseq; ost; oen; ofa; obytes; oparse; ofail] ->
    let f = new_fragment (s_n tid) (s_n seq) (s_bool st) (s_bool en) (s_bool fa) (s_bytes pl) in
    let obs = frag_of_s ofr in
    let r = ref [] in
    if not (fragment_eqb f obs) then r := Mismatch ("NewFragment: model " ^ show_frag f ^ " impl " ^ show_frag obs) :: !r;
    if f_seq f <> s_n oseq then r := Mismatch "SequenceNumber" :: !r;
    if f_start f <> s_bool ost || f_end f <> s_bool oen || f_fail f <> s_bool ofa then r := Mismatch "flag accessors" :: !r;
    if frag_bytes f <> s_bytes obytes then r := Mismatch "Bytes" :: !r;
    (match lst oparse with
     | [Atom "ok"; g] ->
       (match parse_fragment (s_bytes obytes) with
        | Some m -> if not (fragment_eqb m (frag_of_s g)) then r := Mismatch "ParseFragment value" :: !r
        | None -> r := Mismatch "ParseFragment: model rejects" :: !r);
       (* property (C17): decode (encode x) = x on the implementation's own output, for seq < 32 *)
       let g = frag_of_s g in
       if s_int seq < 32 &&
          not (g.f_tid = s_n tid && f_seq g = s_n seq && f_start g = s_bool st && f_end g = s_bool en
               && f_fail g = s_bool fa && g.f_payload = s_bytes pl)
       then r := Propfail ("bbc.header.roundtrip", "decoded header differs from encoded fields") :: !r
     | _ ->
       r := Propfail ("bbc.header.roundtrip", "own encoding rejected") :: !r);
    if not (fragment_eqb (report_failure f) (frag_of_s ofail)) then r := Mismatch "ReportFailure" :: !r;
    if !r = [] then [Ok_ ["hdr"; (if s_int seq < 32 then "seq<32" else "seq>=32")]] else !r
  | _ -> raise (Bad "hdr case")

let next = function
  | [b; oseq; otid] ->
    let r = ref [] in
    if next_seq (s_n b) <> s_n oseq then r := Mismatch "nextSequenceNumber" :: !r;
    if next_tid (s_n b) <> s_n otid then r := Mismatch "nextTransmissionId" :: !r;
    if !r = [] then [Ok_ ["next"]] else !r
  | _ -> raise (Bad "next case")

let parse = function
  | [d; o] ->
    (match parse_fragment (s_bytes d), lst o with
     | None, [Atom "err"] -> [Ok_ ["parse-short"]]
     | Some m, [Atom "ok"; g; sq; st; en; fa] ->
       if fragment_eqb m (frag_of_s g) && f_seq m = s_n sq && f_start m = s_bool st && f_end m = s_bool en && f_fail m = s_bool fa
       then [Ok_ ["parse-ok"]] else [Mismatch "parse value"]
     | _ -> [Mismatch "parse accept/reject"])
  | _ -> raise (Bad "parse case")

let () =
  register "C17bbc" "hdr" hdr;
  register "C17bbc" "next" next;
  register "C17bbc" "parse" parse
