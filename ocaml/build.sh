#!/bin/sh
# builds the extracted model + driver.  Run from /verif/ocaml.
set -e
cd "$(dirname "$0")"
coqc -Q ../coq DTN ../coq/Extract/Extract.v >/dev/null
ocamlfind ocamlopt -w -a -o ../bin/driver model.mli model.ml sexp.ml conv.ml verdict.ml d_*.ml driver.ml
