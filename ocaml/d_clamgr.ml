(* C16 - CLA manager: replays the observed event sequences through the extracted model
   (Model.cm_step) and evaluates the property's own checker on what the implementation did. *)
open Model
open Conv
open Sexp
open Verdict

(* ---------- parsing ---------- *)
let outcome_of = function
  | "ok" -> SOk | "fr" -> SFailRetry | "fn" -> SFailNo | s -> raise (Bad ("outcome " ^ s))
let role_of = function
  | "s" -> RSender | "r" -> RReceiver | "b" -> RBoth | s -> raise (Bad ("role " ^ s))

let cfg_of s = match lst s with
  | [q; ads] ->
    { cfg_ttl = s_z q;
      cfg_ads = List.map (fun a -> match lst a with
          | [addr; perm; role; eid; peer] ->
            { ad_addr = s_n addr; ad_perm = s_bool perm; ad_role = role_of (s_sym role);
              ad_eid = s_n eid; ad_peer = s_n peer }
          | _ -> raise (Bad "adapter")) (lst ads) }
  | _ -> raise (Bad "cfg")

type obs = {
  status : string;
  calls : (int * string) list;
  snd_ : int list;
  rcv_ : int list;
  dump : (int * int * int * bool) list;   (* address, instance, ttl, stop channel exists *)
}

let obs_of s = match lst s with
  | [st; calls; snd_; rcv_; dump] ->
    { status = s_sym st;
      calls = List.map (fun c -> match lst c with [i; k] -> (s_int i, s_sym k) | _ -> raise (Bad "call")) (lst calls);
      snd_ = List.map s_int (lst snd_);
      rcv_ = List.map s_int (lst rcv_);
      dump = List.map (fun d -> match lst d with
          | [a; i; t; h] -> (s_int a, s_int i, s_int t, s_bool h) | _ -> raise (Bad "dump")) (lst dump) }
  | _ -> raise (Bad "obs")

let event_of name id = match name with
  | "reg" -> ERegister (nat_of_int id) | "unreg" -> EUnregister (nat_of_int id)
  | "restart" -> ERestart (nat_of_int id) | "tick" -> ETick | "pg" -> EPeerGone (nat_of_int id)
  | "close" -> EClose | s -> raise (Bad ("event " ^ s))

(* ---------- model side ---------- *)
let call_to_pair = function
  | CStart (i, SOk) -> (int_of_nat i, "ok") | CStart (i, SFailRetry) -> (int_of_nat i, "fr")
  | CStart (i, SFailNo) -> (int_of_nat i, "fn") | CClose i -> (int_of_nat i, "close")
let pair_to_call (i, k) = match k with
  | "close" -> CClose (nat_of_int i) | k -> CStart (nat_of_int i, outcome_of k)

let rec drop n l = if n <= 0 then l else match l with [] -> [] | _ :: t -> drop (n - 1) t
let z_to_int z = int_of_string (dec_of_z z)
let by_adapter l = List.stable_sort (fun (a, _) (b, _) -> compare a b) l

let model_obs cfg st0 st1 =
  let newcalls = List.map call_to_pair (drop (List.length st0.st_log) st1.st_log) in
  let ids l = List.sort compare (List.map int_of_nat l) in
  let dump = List.sort compare (List.map (fun (k, e) ->
      (int_of_n k, int_of_nat e.e_inst, z_to_int e.e_ttl, e.e_chan <> CNil)) st1.st_reg) in
  { status = (if st1.st_panic then "panic" else "ok"); calls = newcalls;
    snd_ = ids (cm_senders cfg st1); rcv_ = ids (cm_receivers cfg st1); dump }

let show_calls l = String.concat "," (List.map (fun (i, k) -> Printf.sprintf "%d:%s" i k) l)
let show_ints l = String.concat "," (List.map string_of_int l)
let show_dump l = String.concat "," (List.map (fun (a, i, t, h) -> Printf.sprintf "%d>%d/%d/%b" a i t h) l)

let compare_obs where (m : obs) (o : obs) : string option =
  if m.status <> o.status then Some (Printf.sprintf "%s: status model %s impl %s" where m.status o.status)
  else if o.status <> "ok" then None
  else if by_adapter m.calls <> by_adapter o.calls then
    Some (Printf.sprintf "%s: calls model [%s] impl [%s]" where (show_calls m.calls) (show_calls o.calls))
  else if m.snd_ <> o.snd_ then Some (Printf.sprintf "%s: Sender() model [%s] impl [%s]" where (show_ints m.snd_) (show_ints o.snd_))
  else if m.rcv_ <> o.rcv_ then Some (Printf.sprintf "%s: Receiver() model [%s] impl [%s]" where (show_ints m.rcv_) (show_ints o.rcv_))
  else if m.dump <> o.dump then Some (Printf.sprintf "%s: registry model [%s] impl [%s]" where (show_dump m.dump) (show_dump o.dump))
  else None

(* ---------- the property's checker, on the implementation's own observations ---------- *)
type pstate = {
  mutable ilog : cm_call list;          (* every call the implementation made, oldest first *)
  mutable iclosed : bool;
  mutable last : obs;                   (* observation before the current step *)
  mutable tickrun : int;                (* number of consecutive tick steps *)
  mutable tickfails : (int * int) list; (* failing starts per adapter within that run *)
  mutable wanted : (int * bool) list;   (* is the adapter supposed to be supervised: registered and not told "do not retry" *)
}
let empty_obs = { status = "ok"; calls = []; snd_ = []; rcv_ = []; dump = [] }
let new_pstate () = { ilog = []; iclosed = false; last = empty_obs; tickrun = 0; tickfails = []; wanted = [] }

let nads cfg = List.length cfg.cfg_ads
let adapter cfg i = cm_ad cfg (nat_of_int i)
let started log i = cm_started log (nat_of_int i)

(* checks that do not depend on the kind of step *)
let check_common cfg ps evname (o : obs) (fails : (string * string) list ref) =
  let add k d = if not (List.mem_assoc k !fails) then fails := (k, d) :: !fails in
  let log_before = ps.ilog in
  (* calls one by one: no Start of a running adapter, no Close of a stopped one *)
  let log = ref log_before in
  List.iter (fun (i, k) ->
      let run = started !log i in
      if k = "close" && not run then add "clamgr.adapter.closed-while-not-started" (Printf.sprintf "Close of adapter %d which is not started (%s)" i evname);
      if k <> "close" && run then add "clamgr.adapter.started-twice" (Printf.sprintf "Start of adapter %d which is already started (%s)" i evname);
      log := !log @ [pair_to_call (i, k)]) o.calls;
  ps.ilog <- !log;
  for i = 0 to nads cfg - 1 do
    let a = adapter cfg i in
    let st = started ps.ilog i in
    let in_s = List.mem i o.snd_ and in_r = List.mem i o.rcv_ in
    if (in_s || in_r) && not st then
      add "clamgr.listed.not-started" (Printf.sprintf "adapter %d is listed by Sender()/Receiver() after %s but its last Start did not succeed / it was closed" i evname);
    if st && ((cm_is_sender a && not in_s) || (cm_is_receiver a && not in_r)) then
      add "clamgr.started.not-listed" (Printf.sprintf "adapter %d is started but not listed after %s" i evname);
    for j = i + 1 to nads cfg - 1 do
      if st && started ps.ilog j && (adapter cfg j).ad_addr = a.ad_addr then
        add "clamgr.single-instance" (Printf.sprintf "adapters %d and %d with the same address are both started" i j)
    done
  done

let check_close cfg ps log_before (o : obs) fails =
  let add k d = if not (List.mem_assoc k !fails) then fails := (k, d) :: !fails in
  for i = 0 to nads cfg - 1 do
    let n = List.length (List.filter (fun c -> c = (i, "close")) o.calls) in
    let want = if started log_before i then 1 else 0 in
    if n <> want then add "clamgr.close.not-once" (Printf.sprintf "Close(): adapter %d closed %d times, expected %d" i n want)
  done;
  if List.exists (fun (_, k) -> k <> "close") o.calls then add "clamgr.close.not-once" "Close() started an adapter"

let check_restart cfg key id log_before (before : obs) (o : obs) fails =
  let add k d = if not (List.mem_assoc k !fails) then fails := (k, d) :: !fails in
  if started log_before id then begin
    let a = adapter cfg id in
    let conflict = cm_is_sender a &&
                   List.exists (fun r -> r <> id && (adapter cfg r).ad_eid = a.ad_peer) before.rcv_ in
    let mine = List.filter (fun (i, _) -> i = id) o.calls in
    match mine with
    | (_, "close") :: rest ->
      (match rest with
       | [(_, k)] when k <> "close" -> ()
       | [] when conflict -> ()
       | _ -> add key (Printf.sprintf "adapter %d was stopped but not started again exactly once" id))
    | _ -> add key (Printf.sprintf "started adapter %d was not stopped first" id)
  end

let check_tick cfg ps (before : obs) (o : obs) fails =
  let add k d = if not (List.mem_assoc k !fails) then fails := (k, d) :: !fails in
  let qttl = z_to_int cfg.cfg_ttl in
  List.iter (fun (_, inst, ttl, _) ->
      if ttl >= 0 && inst < nads cfg then begin
        let a = adapter cfg inst in
        let mine = List.filter (fun (i, k) -> i = inst && k <> "close") o.calls in
        let still = List.exists (fun (_, i, t, _) -> i = inst && t >= 0) o.dump in
        if a.ad_perm then begin
          (match mine with
           | [(_, k)] -> if k = "fr" && not (List.exists (fun (_, i, _, _) -> i = inst) o.dump) then
               add "clamgr.retry.permanent-forgotten" (Printf.sprintf "permanent adapter %d dropped after a retryable failure" inst)
           | _ -> add "clamgr.retry.permanent-not-retried" (Printf.sprintf "permanent adapter %d: %d Start calls in a retry pass" inst (List.length mine)))
        end else begin
          if mine = [] && still then add "clamgr.retry.not-retried" (Printf.sprintf "inactive adapter %d neither retried nor forgotten by a retry pass" inst);
          if List.length mine > 1 then add "clamgr.retry.not-retried" (Printf.sprintf "adapter %d started %d times in one pass" inst (List.length mine))
        end
      end) before.dump;
  (* budget of a non-permanent adapter over a run of consecutive retry passes *)
  List.iter (fun (i, k) ->
      if k = "fr" || k = "fn" then begin
        let n = (try List.assoc i ps.tickfails with Not_found -> 0) + 1 in
        ps.tickfails <- (i, n) :: List.remove_assoc i ps.tickfails;
        if i < nads cfg && not (adapter cfg i).ad_perm && n > qttl then
          add "clamgr.retry.budget-exceeded" (Printf.sprintf "non-permanent adapter %d: %d failing starts in consecutive retry passes, budget %d" i n qttl)
      end) o.calls;
  if ps.tickrun >= qttl + 1 then
    List.iter (fun (_, inst, ttl, _) ->
        if ttl >= 0 && inst < nads cfg && not (adapter cfg inst).ad_perm then
          add "clamgr.retry.not-forgotten" (Printf.sprintf "non-permanent adapter %d still registered and inactive after %d retry passes, budget %d" inst ps.tickrun qttl)) o.dump

(* one observed step through the property checker; returns (failures, stop) *)
let check_step ?(closeerr = false) cfg ps evname id (o : obs) : (string * string) list * bool =
  let fails = ref [] in
  let add k d = fails := (k, d) :: !fails in
  if o.status = "timeout" then begin
    (* an adapter whose Close() returned an error has been stopped all the same: the step must return *)
    add ("clamgr.deadlock." ^ evname)
      ("step " ^ evname ^ " did not return" ^
       (if closeerr then " (the Close() of an adapter which this step stopped returned an error)" else ""));
    List.iter (fun (i, k) ->
        if k = "close" && (List.mem i o.snd_ || List.mem i o.rcv_) then
          add "clamgr.listed.not-started" (Printf.sprintf "adapter %d is still listed by Sender()/Receiver() although step %s has closed it" i evname)) o.calls;
    (!fails, true)
  end
  else if o.status = "panic" then begin
    (* a second Manager.Close() is outside the io.Closer contract: not judged *)
    if not (evname = "close" && ps.iclosed) then add ("clamgr.panic." ^ evname) ("Go panic in step " ^ evname);
    (!fails, true)
  end else begin
    let before = ps.last and log_before = ps.ilog in
    if evname = "tick" then ps.tickrun <- ps.tickrun + 1 else (ps.tickrun <- 0; ps.tickfails <- []);
    (* supervision wanted: set by register / restart / peer-gone, cleared by unregister, Close and a
       start that failed with "do not retry" *)
    let set_wanted i v = ps.wanted <- (i, v) :: List.remove_assoc i ps.wanted in
    (match evname with
     | "reg" | "restart" | "pg" -> set_wanted id true
     | "unreg" -> set_wanted id false
     | "close" -> ps.wanted <- []
     | _ -> ());
    List.iter (fun (i, k) ->
        if k <> "close" then begin
          let w = (try List.assoc i ps.wanted with Not_found -> false) in
          (* an adapter sharing the address of a wanted one may be re-started in its place *)
          let shared = List.exists (fun (j, wj) -> wj && j <> i && j < nads cfg && i < nads cfg
                                                   && (adapter cfg j).ad_addr = (adapter cfg i).ad_addr) ps.wanted in
          if not w && not shared then
            add "clamgr.started.unwanted" (Printf.sprintf "Start of adapter %d in step %s although it was unregistered, told not to retry, or the manager was closed" i evname);
          (* a non-permanent adapter that said "do not retry" must not be started again; a permanent one
             gets one more start from the next retry pass before it is dropped (code as it is; the
             property is silent about it) *)
          if k = "fn" && i < nads cfg && not (adapter cfg i).ad_perm then set_wanted i false
        end) o.calls;
    check_common cfg ps evname o fails;
    (match evname with
     | "close" -> if not ps.iclosed then check_close cfg ps log_before o fails; ps.iclosed <- true
     | "pg" -> if not ps.iclosed then check_restart cfg "clamgr.peergone.not-restarted" id log_before before o fails
     | "restart" -> if not ps.iclosed then check_restart cfg "clamgr.restart.not-restarted" id log_before before o fails
     | "tick" -> if not ps.iclosed then check_tick cfg ps before o fails
     | _ -> ());
    ps.last <- o;
    (!fails, false)
  end

(* ---------- kind "seq" ---------- *)
let uniq l = List.sort_uniq compare l

(* replays synchronous steps: verdicts, tags, final model state, checker state, halted? *)
let run_steps cfg steps =
    let ps = new_pstate () in
    let res = ref [] and tags = ref [] in
    let st = ref cm_init in
    let stop = ref false and mstop = ref false and seen = ref [] in
    List.iteri (fun k s ->
        if not !stop then
          match lst s with
          | ([ev; orc; o] | [ev; orc; _; o]) as fields ->
            let errids = (match fields with
                | [_; _; corc; _] -> List.concat (List.mapi (fun i x -> if s_sym x = "err" then [i] else []) (lst corc))
                | _ -> []) in
            let (evname, id) = (match lst ev with [e; i] -> (s_sym e, s_int i) | _ -> raise (Bad "ev")) in
            let orc = List.map (fun x -> outcome_of (s_sym x)) (lst orc) in
            let o = obs_of o in
            let st1 = cm_step cfg !st (event_of evname id) orc in
            let m = model_obs cfg !st st1 in
            if not !mstop then
              (match compare_obs (Printf.sprintf "step %d (%s %d)" k evname id) m o with
               | Some d -> res := Mismatch d :: !res; mstop := true
               | None -> ());
            tags := ("ev-" ^ evname) :: !tags;
            List.iter (fun (_, kd) -> tags := ("call-" ^ kd) :: !tags) o.calls;
            if List.length st1.st_reg < List.length !st.st_reg && evname = "tick" then tags := "forgotten" :: !tags;
            if o.status = "panic" then tags := (if evname = "close" && ps.iclosed then "panic-second-close" else "panic") :: !tags;
            let closeerr = List.exists (fun (i, kd) -> kd = "close" && List.mem i errids) o.calls in
            if closeerr then tags := ("close-error-in-" ^ evname) :: !tags;
            let (fails, halt) = check_step ~closeerr cfg ps evname id o in
            List.iter (fun (k, d) -> if not (List.mem k !seen) then (seen := k :: !seen; res := Propfail (k, d) :: !res)) fails;
            if halt then stop := true;
            st := st1
          | _ -> raise (Bad "step")) steps;
    (List.rev !res, !tags, !st, ps, !stop || !mstop)

let seq = function
  | [cfg; steps] ->
    let cfg = cfg_of cfg in
    let (res, tags, _, _, _) = run_steps cfg (lst steps) in
    if res = [] then [Ok_ (uniq tags)] else res
  | _ -> raise (Bad "seq case")

(* ---------- kind "ticker" (real retry ticker, one adapter, scripted Start outcomes) ----------
   phases: reg = Register then ticks until the registry is stable (empty / all active),
           pg  = peer loss then ticks until stable, close.  The k-th Start call of the run gets
           script[k] (then ok); the model replays a phase as the event followed by [settle_ticks]
           retry passes and must itself be quiescent then. *)
let settle_ticks = 14

let ticker = function
  | [cfg; script; phases] ->
    let cfg = cfg_of cfg in
    let script = List.map (fun x -> outcome_of (s_sym x)) (lst script) in
    let nstarts st = List.length (List.filter (function CStart _ -> true | _ -> false) st.st_log) in
    let orc st = [ (match List.nth_opt script (nstarts st) with Some o -> o | None -> SOk) ] in
    let step st ev = cm_step cfg st ev (orc st) in
    let ps = new_pstate () in
    let res = ref [] and tags = ref [] in
    let st = ref cm_init in
    let stop = ref false in
    let a = adapter cfg 0 in
    let qttl = z_to_int cfg.cfg_ttl in
    List.iteri (fun k p ->
        if not !stop then
          match lst p with
          | [name; o] ->
            let name = s_sym name in
            let o = obs_of o in
            let st0 = !st in
            let settle s0 =
              let s = ref s0 in
              for _ = 1 to settle_ticks do s := step !s ETick done;
              let s' = step !s ETick in
              if s'.st_reg <> !s.st_reg || s'.st_log <> !s.st_log then
                res := Mismatch "ticker: model not quiescent after the settle ticks (generator script too long)" :: !res;
              !s in
            let st1 = (match name with
                | "reg" -> settle (step st0 (ERegister O))
                | "pg" -> settle (step st0 (EPeerGone O))
                | "close" -> step st0 EClose
                | s -> raise (Bad ("phase " ^ s))) in
            let m = model_obs cfg st0 st1 in
            (match compare_obs (Printf.sprintf "ticker phase %d (%s)" k name) m o with
             | Some d -> res := Mismatch d :: !res; stop := true
             | None -> ());
            tags := ("tk-" ^ name) :: !tags;
            List.iter (fun (_, kd) -> tags := ("tk-call-" ^ kd) :: !tags) o.calls;
            if List.length o.calls >= 4 then tags := "tk-4+calls" :: !tags;
            (* property checker *)
            let fails =
              if name = "close" then begin
                let (f, halt) = check_step cfg ps "close" 0 o in
                if halt then stop := true; f
              end else if o.status = "timeout" then
                (stop := true; [("clamgr.retry.never-settles", "registry neither empty nor all-active after 5 s of retry ticks")])
              else if o.status = "panic" then (stop := true; [("clamgr.panic." ^ name, "Go panic")])
              else begin
                let fails = ref [] in
                let log_before = ps.ilog in
                let consumed = List.length (List.filter (function CStart _ -> true | _ -> false) log_before) in
                check_common cfg ps ("ticker " ^ name) o fails;
                let nfail = List.length (List.filter (fun (_, kd) -> kd = "fr" || kd = "fn") o.calls) in
                if (not a.ad_perm) && nfail > qttl then
                  fails := ("clamgr.retry.budget-exceeded", Printf.sprintf "non-permanent adapter: %d failing starts on the ticker, budget %d" nfail qttl) :: !fails;
                let restarted = name = "reg" || started log_before 0 in
                if name = "pg" && started log_before 0 then
                  (match o.calls with
                   | (_, "close") :: (_, kd) :: _ when kd <> "close" -> ()
                   | _ -> fails := ("clamgr.peergone.not-restarted", "peer loss: adapter not stopped and started again") :: !fails);
                (* a permanent adapter is retried until it starts (or until it says itself that no
                   retry should be made) *)
                if a.ad_perm && restarted then begin
                  let rec first_final l = (match l with [] -> SOk | SFailRetry :: t -> first_final t | x :: _ -> x) in
                  if first_final (drop consumed script) = SOk && not (started ps.ilog 0) then
                    fails := ("clamgr.retry.permanent-gave-up", "permanent adapter not retried until its Start succeeded") :: !fails
                end;
                (* stable and not started: a non-permanent adapter must have been forgotten *)
                if List.exists (fun (_, _, t, _) -> t >= 0) o.dump then
                  fails := ("clamgr.retry.not-forgotten", "inactive element left although the registry was reported stable") :: !fails;
                ps.last <- o;
                !fails
              end in
            List.iter (fun (k, d) -> res := Propfail (k, d) :: !res) fails;
            if fails <> [] then stop := true;
            st := st1
          | _ -> raise (Bad "phase")) (lst phases);
    if !res = [] then [Ok_ (uniq !tags)] else List.rev !res
  | _ -> raise (Bad "ticker case")

(* ---------- kind "conc" (generator C16clamgrconc): Manager.Close() with events in flight ----------
   (case n conc cfg mode setup oracle msgs variant bystander unreg ustatus status calls post snd rcv dump)
   setup:  msg mode - synchronous steps as in "seq"; ticker mode - (reg id) ...
   oracle: outcome of every Start call per adapter from the end of the set-up on
   msgs:   (pg id) | (pa id) injected on the adapters' channels while Close() is called
   calls:  Start/Close calls in order (msg mode: since the set-up; ticker mode: all), post: calls made
           after Close() had returned.  bystander: adapter registered by another goroutine, or -1.
   unreg:  started adapter for which another goroutine calls Unregister while the shutdown stops it, or -1;
           ustatus: none | ok | panic | timeout *)
let rec selections (l : int list) : (int list * int list) list =
  (* ordered sub-selections of l (positions distinct): (chosen in order, rest) *)
  ([], l) :: List.concat (List.mapi (fun i x ->
      let rest = List.filteri (fun j _ -> j <> i) l in
      List.map (fun (c, r) -> (x :: c, r)) (selections rest)) l)

let rec splits l = match l with
  | [] -> [([], [])]
  | x :: t -> ([], l) :: List.map (fun (a, b) -> (x :: a, b)) (splits t)

let conc = function
  | [cfg; mode; setup; orc; msgs; variant; bystander; unreg; ustatus; status; calls; post; snd_; rcv_; dump] ->
    let cfg = cfg_of cfg in
    let mode = s_sym mode and variant = s_sym variant and status = s_sym status in
    let bystander = (match bystander with Atom "-1" -> -1 | b -> s_int b) in
    let unreg = (match unreg with Atom "-1" -> -1 | b -> s_int b) and ustatus = s_sym ustatus in
    let orc = List.map (fun x -> outcome_of (s_sym x)) (lst orc) in
    let pairs l = List.map (fun c -> match lst c with [i; k] -> (s_int i, s_sym k) | _ -> raise (Bad "call")) (lst l) in
    let calls = pairs calls and post = pairs post in
    let o = obs_of (List [Atom "ok"; List []; snd_; rcv_; dump]) in
    let pgs = List.filter_map (fun m -> match lst m with
        | [Atom "pg"; i] -> Some (s_int i) | [Atom "pa"; _] -> None | _ -> raise (Bad "msg")) (lst msgs) in
    let (res0, tags0, st, ps, halted) =
      if mode = "msg" then run_steps cfg (lst setup) else ([], [], cm_init, new_pstate (), false) in
    if res0 <> [] || halted || status = "setup-failed" then
      (if res0 = [] then [Ok_ ["conc-setup-failed"]] else res0)
    else begin
      let res = ref [] in
      let add v = res := v :: !res in
      let pf k d = if not (List.exists (function Propfail (k', _) -> k' = k | _ -> false) !res) then add (Propfail (k, d)) in
      let tags = ref (("conc-" ^ mode) :: ("conc-" ^ variant) :: List.map (fun t -> "setup-" ^ t) tags0) in
      let tag t = tags := t :: !tags in
      if bystander >= 0 then tag "conc-bystander-register";
      if unreg >= 0 then tag ("conc-bystander-unregister-" ^ ustatus);
      (match ustatus with
       | "panic" -> pf "clamgr.panic.unregister-concurrent"
                      (Printf.sprintf "Go panic in Unregister of started adapter %d called by another goroutine while Close() was stopping it" unreg)
       | "timeout" -> pf "clamgr.deadlock.unregister-concurrent"
                        (Printf.sprintf "Unregister of adapter %d, called while Close() was stopping it, did not return" unreg)
       | _ -> ());
      let inflight = Printf.sprintf "%d PeerDisappeared and %d other status messages in flight, %s"
          (List.length pgs) (List.length (lst msgs) - List.length pgs) variant in
      (* ---- the property's checker: what the implementation did ---- *)
      (match status with
       | "timeout" -> pf "clamgr.deadlock.close-concurrent" ("Manager.Close() did not return within 15 s: " ^ inflight)
       | "panic" -> pf "clamgr.panic.close-concurrent" ("Go panic in Manager.Close(): " ^ inflight)
       | "register-timeout" -> pf "clamgr.deadlock.register-concurrent" "Register from another goroutine did not return after Close() had returned"
       | "inject-timeout" ->
         (* under extreme machine load Close() can have stopped the adapter before the harness's injector goroutine
            sent its first message, which is then never taken: an artefact of the schedule set-up, not of the
            manager - inconclusive, shown in the evidence *)
         tags := "inject-timeout-inconclusive" :: !tags
       | "ok" -> ()
       | s -> raise (Bad ("status " ^ s)));
      (* every call, in order: no Start of a started adapter, no Close of a stopped one, one instance per address *)
      let log = ref ps.ilog in
      let n = nads cfg in
      let walk where l =
        List.iter (fun (i, k) ->
            let run = started !log i in
            if k = "close" && not run then pf "clamgr.adapter.closed-while-not-started" (Printf.sprintf "Close of adapter %d which is not started (%s; %s)" i where inflight);
            if k <> "close" && run then pf "clamgr.adapter.started-twice" (Printf.sprintf "Start of adapter %d which is already started (%s; %s)" i where inflight);
            log := !log @ [pair_to_call (i, k)];
            if k = "ok" then
              for j = 0 to n - 1 do
                if j <> i && started !log j && (adapter cfg j).ad_addr = (adapter cfg i).ad_addr then
                  pf "clamgr.single-instance" (Printf.sprintf "adapters %d and %d with the same address are both started (%s)" i j where)
              done) l in
      walk "Close() with events in flight" calls;
      if status = "ok" then begin
        List.iter (fun (i, k) ->
            if k = "close" then pf "clamgr.close.stop-after-return" (Printf.sprintf "adapter %d was stopped only after Close() had returned (%s)" i inflight)
            else pf "clamgr.close.start-after-close" (Printf.sprintf "Start of adapter %d after Close() had returned (%s)" i inflight)) post;
        walk "after Close() returned" post;
        for i = 0 to n - 1 do
          if started !log i then
            pf "clamgr.close.left-running"
              (Printf.sprintf "adapter %d is still started after Close() returned%s (%s)" i
                 (if i = bystander then " and the Register call of another goroutine that overlapped it returned as well" else "") inflight);
          if List.mem i o.snd_ || List.mem i o.rcv_ then
            pf "clamgr.close.still-listed" (Printf.sprintf "adapter %d is listed by Sender()/Receiver() after Close() returned (%s)" i inflight)
        done
      end;
      (* ---- correspondence: some schedule of the handler explains the calls (msg mode) ---- *)
      let mine l = List.filter (fun (i, _) -> i <> bystander) l in
      let byst = List.filter (fun (i, _) -> i = bystander) calls in
      if byst <> [] then tag (if List.exists (fun (_, k) -> k = "ok") byst then "conc-bystander-started" else "conc-bystander-start-failed");
      if status = "ok" && mode = "msg" && !res = [] then begin
        let want = by_adapter (mine calls) in
        let dump_wo = o.dump in
        let found = ref None in
        List.iter (fun (chosen, rest) ->
            if !found = None then
              List.iter (fun (pre, pst) ->
                  if !found = None then begin
                    let st' = cm_conc_close cfg st (List.map (fun i -> (nat_of_int i, orc)) pre) (List.map nat_of_int pst) in
                    let got = List.map call_to_pair (drop (List.length st.st_log) st'.st_log) in
                    if by_adapter got = want && not st'.st_panic then found := Some (List.length pre, List.length pst, List.length rest)
                  end) (splits chosen)) (selections pgs);
        (match !found with
         | Some (a, b, c) ->
           if a > 0 then tag "conc-restart-before-flag";
           if b > 0 then tag "conc-unregister-after-flag";
           if c > 0 && (a > 0 || b > 0) then tag "conc-part-of-queue-dropped";
           if a = 0 && b = 0 then tag "conc-stop-only";
           if List.exists (fun (_, k) -> k = "fr" || k = "fn") want then tag "conc-restart-failed"
         | None ->
           add (Mismatch (Printf.sprintf "no schedule of the handler (restart before / unregister after the stop flag / dropped, then shutdown) explains the calls [%s] (%s)"
                            (show_calls (mine calls)) inflight)));
        if dump_wo <> [] then add (Mismatch (Printf.sprintf "registry after Close(): model [] impl [%s]" (show_dump dump_wo)))
      end;
      if mode = "ticker" then begin
        let nfail = List.length (List.filter (fun (_, k) -> k = "fr") calls) in
        if nfail >= 4 then tag "conc-ticker-retries";
        if List.exists (fun (_, k) -> k = "close") calls && List.length (List.filter (fun (_, k) -> k = "ok") calls) > List.length (lst setup) - 1 then tag "conc-ticker-restart"
      end;
      if !res = [] then [Ok_ (uniq !tags)] else List.rev !res
    end
  | _ -> raise (Bad "conc case")

(* ---------- kind "traffic" (generator C16clamgrext): the REAL retry timer while another adapter emits status messages ----------
   (case n traffic cfg script retry-ms msgs-per-interval n phases); adapter 0 started and talking,
   adapter 1 pending with the scripted Start outcomes.  phases: setup = Register 0; run = Register 1,
   then the real timer until adapter 1 is active or forgotten, status "late" when that did not
   happen within n retry intervals (n >= 2 x attempts needed + 10); close. *)
let traffic = function
  | [cfg; script; retry; per; n; phases] ->
    let cfg = cfg_of cfg in
    let script = List.map (fun x -> outcome_of (s_sym x)) (lst script) in
    let retry = s_int retry and per = s_int per and n = s_int n in
    let nstarts1 st = List.length (List.filter (function CStart (i, _) -> int_of_nat i = 1 | _ -> false) st.st_log) in
    let orc st = [ SOk; (match List.nth_opt script (nstarts1 st) with Some o -> o | None -> SOk) ] in
    let step st ev = cm_step cfg st ev (orc st) in
    let ps = new_pstate () in
    let res = ref [] and tags = ref [] in
    let st = ref cm_init in
    let stop = ref false in
    let b = adapter cfg 1 in
    let qttl = z_to_int cfg.cfg_ttl in
    List.iteri (fun k p ->
        if not !stop then
          match lst p with
          | [name; o] ->
            let name = s_sym name in
            let o = obs_of o in
            let st0 = !st in
            let st1 = (match name with
                | "setup" -> step st0 (ERegister O)
                | "run" ->
                  let s = ref (step st0 (ERegister (nat_of_int 1))) in
                  for _ = 1 to max n settle_ticks do s := step !s ETick done;
                  let s' = step !s ETick in
                  if s'.st_reg <> !s.st_reg || s'.st_log <> !s.st_log then
                    res := Mismatch "traffic: model not quiescent after n retry passes (generator script too long)" :: !res;
                  !s
                | "close" -> step st0 EClose
                | s -> raise (Bad ("phase " ^ s))) in
            let m = model_obs cfg st0 st1 in
            tags := ("tr-" ^ name) :: !tags;
            if name = "run" then begin
              List.iter (fun (_, kd) -> tags := ("tr-call-" ^ kd) :: !tags) o.calls;
              if List.length o.calls >= 4 then tags := "tr-4+attempts" :: !tags;
              if o.status = "ok" then tags := (if List.exists (fun (_, i, _, _) -> i = 1) o.dump then "tr-activated" else "tr-forgotten") :: !tags
            end;
            (* property checker *)
            let fails =
              if name <> "run" then begin
                let (f, halt) = check_step cfg ps (if name = "setup" then "reg" else "close") 0 o in
                if halt then stop := true; f
              end else if o.status = "late" then begin
                stop := true;
                let att = List.length (List.filter (fun (i, kd) -> i = 1 && kd <> "close") o.calls) in
                [("clamgr.retry.not-at-interval",
                  Printf.sprintf "pending adapter 1 was neither started nor forgotten within %d retry intervals of %d ms (at least 3 s): %d Start attempts [%s] while started adapter 0 emitted about %d status messages per interval"
                    n retry att (show_calls o.calls) per)]
              end
              else if o.status = "timeout" then (stop := true; [("clamgr.deadlock.reg", "Register did not return")])
              else if o.status = "panic" then (stop := true; [("clamgr.panic.reg", "Go panic")])
              else begin
                let fails = ref [] in
                check_common cfg ps "traffic run" o fails;
                let nfail = List.length (List.filter (fun (i, kd) -> i = 1 && (kd = "fr" || kd = "fn")) o.calls) in
                if (not b.ad_perm) && nfail > qttl then
                  fails := ("clamgr.retry.budget-exceeded", Printf.sprintf "non-permanent adapter: %d failing starts on the timer, budget %d" nfail qttl) :: !fails;
                if b.ad_perm then begin
                  let rec first_final l = (match l with [] -> SOk | SFailRetry :: t -> first_final t | x :: _ -> x) in
                  if first_final script = SOk && not (started ps.ilog 1) then
                    fails := ("clamgr.retry.permanent-gave-up", "permanent adapter not retried until its Start succeeded") :: !fails
                end;
                if List.exists (fun (_, _, t, _) -> t >= 0) o.dump then
                  fails := ("clamgr.retry.not-forgotten", "inactive element left although the registry was reported stable") :: !fails;
                ps.last <- o;
                !fails
              end in
            List.iter (fun (k, d) -> res := Propfail (k, d) :: !res) fails;
            if fails <> [] then stop := true;
            if not !stop then
              (match compare_obs (Printf.sprintf "traffic phase %d (%s)" k name) m o with
               | Some d -> res := Mismatch d :: !res; stop := true
               | None -> ());
            st := st1
          | _ -> raise (Bad "phase")) (lst phases);
    if !res = [] then [Ok_ (uniq !tags)] else List.rev !res
  | _ -> raise (Bad "traffic case")

(* the runner looks up the case of every PROPFAIL line; on a badly broken tree tens of thousands of
   cases fail with the same key, so only the first [cap] per key are reported as PROPFAIL and the
   rest as (equally failing) MISMATCH lines *)
let cap = 40
let seen_keys : (string, int) Hashtbl.t = Hashtbl.create 16
let capped h fields =
  List.map (function
      | Propfail (k, d) ->
        let n = (try Hashtbl.find seen_keys k with Not_found -> 0) + 1 in
        Hashtbl.replace seen_keys k n;
        if n <= cap then Propfail (k, d) else Mismatch ("property checker (further case): " ^ k ^ " " ^ d)
      | v -> v) (h fields)

let () =
  register "C16clamgr" "seq" (capped seq);
  register "C16clamgr" "ticker" (capped ticker);
  register "C16clamgrconc" "conc" (capped conc);
  register "C16clamgrext" "seqc" (capped seq);
  register "C16clamgrext" "tickerc" (capped ticker);
  register "C16clamgrext" "traffic" (capped traffic)
