(* C02builder: builder call sequences, model (coq/Model/Builder.v) against the real BundleBuilder *)
open Model
open Conv
open Sexp
open Verdict
open D_bundle

let opt_eid s = match lst s with
  | [Atom "n"] -> None
  | [Atom "s"; u] -> Some (s_eid u)
  | _ -> raise (Bad "eid arg")
let opt_n s = match lst s with
  | [Atom "n"] -> None
  | [Atom "s"; v] -> Some (s_n v)
  | _ -> raise (Bad "num arg")

(* returns the model op and, for build, the observed result *)
let op_of_s s : bld_op * Sexp.t option =
  match lst s with
  | [Atom "src"; e] -> (BoSource (opt_eid e), None)
  | [Atom "dst"; e] -> (BoDest (opt_eid e), None)
  | [Atom "rpt"; e] -> (BoReportTo (opt_eid e), None)
  | [Atom "time"; t] -> (BoTime (s_n t), None)
  | [Atom "life"; l] -> (BoLifetime (opt_n l), None)
  | [Atom "flags"; f] -> (BoFlags (s_n f), None)
  | [Atom "crc"; c] -> (BoCrc (s_n c), None)
  | [Atom "canon"; fl; tc; v] -> (BoCanon (s_n fl, ext_of_s (s_n tc) v), None)
  | [Atom "canonblock"; num; fl; crc; tc; v] ->
    (BoCanonBlock { c_num = s_n num; c_flags = s_n fl; c_crc = s_n crc; c_val = ext_of_s (s_n tc) v }, None)
  | [Atom "hop"; l; fl] -> (BoHop (s_n l, s_n fl), None)
  | [Atom "age"; a; fl] -> (BoAge (opt_n a, s_n fl), None)
  | [Atom "prev"; e; fl] -> (BoPrev (opt_eid e, s_n fl), None)
  | [Atom "payload"; d; fl] -> (BoPayload (s_bytes d, s_n fl), None)
  | [Atom "admin"; d] -> (BoAdmin (s_bytes d), None)
  | [Atom "build"; res] -> (BoBuild, Some res)
  | _ -> raise (Bad ("builder op: " ^ Sexp.to_string s))

let builder_case = function
  | [now; ops; fin] ->
    let now = s_n now in
    let parsed = List.map op_of_s (lst ops) in
    let mops = List.map fst parsed in
    let observed = List.filter_map snd parsed in
    let model = bld_run now bld_init mops in
    let r = ref [] in
    let tags = ref [] in
    if List.length model <> List.length observed then raise (Bad "build count");
    let ok_dumps = ref [] in
    List.iteri (fun i (m, o) ->
        match m, lst o with
        | None, [Atom "err"] -> tags := "build-err" :: !tags
        | Some b, [Atom "ok"; dump] ->
          tags := "build-ok" :: !tags;
          ok_dumps := dump :: !ok_dumps;
          let md = dump_bundle b in
          if md <> Sexp.to_string dump then
            r := Mismatch (Printf.sprintf "Build #%d: model %s" (i + 1) md) :: !r
        | None, (Atom "ok" :: dump :: _) ->
          ok_dumps := dump :: !ok_dumps;
          r := Mismatch (Printf.sprintf "Build #%d: implementation returns a bundle, model an error" (i + 1)) :: !r
        | Some _, _ -> r := Mismatch (Printf.sprintf "Build #%d: implementation returns an error, model a bundle" (i + 1)) :: !r
        | _ -> raise (Bad "build result"))
      (List.combine model observed);
    (* the property on the implementation's own output: what Build returned is well-formed, then and later *)
    let ok_dumps = List.rev !ok_dumps in
    List.iteri (fun i d ->
        let b = bundle_of_dump d in
        if not (check_valid now b) then
          r := Propfail ("wf.builder.invalid", Printf.sprintf "successful Build #%d returned a bundle violating a structural rule" (i + 1)) :: !r;
        match enc_bundle b with
        | None -> r := Propfail ("wf.builder.unserialisable", "built bundle cannot be serialised") :: !r
        | Some bs -> if dec_bundle now bs = None then r := Propfail ("wf.builder.rejected", "serialisation of the built bundle is rejected") :: !r)
      ok_dumps;
    let fin = lst fin in
    if List.length fin <> List.length ok_dumps then raise (Bad "final count");
    List.iteri (fun i (a, b) ->
        if Sexp.to_string a <> Sexp.to_string b then
          r := Propfail ("wf.builder.earlier-changed",
                         Printf.sprintf "the bundle returned by successful Build #%d was altered by the further use of the builder" (i + 1)) :: !r)
      (List.combine ok_dumps fin);
    if !r = [] then [Ok_ (List.sort_uniq compare !tags)] else !r
  | _ -> raise (Bad "builderseq case")

let () = register "C02builder" "builderseq" builder_case
