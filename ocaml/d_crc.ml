open Model
open Conv
open Sexp
open Verdict

(* ---- an independent CBOR item delimiter over an OCaml byte array (definite lengths only) ---- *)
exception Delim
let head (a : int array) (p : int) : int * int * int =   (* major, argument (clipped), next pos *)
  if p >= Array.length a then raise Delim;
  let b = a.(p) in
  let major = b lsr 5 and ai = b land 31 in
  if ai < 24 then (major, ai, p + 1)
  else if ai <= 27 then begin
    let l = 1 lsl (ai - 24) in
    if p + l >= Array.length a + 0 && p + l > Array.length a - 0 then ();
    if p + 1 + l > Array.length a then raise Delim;
    let v = ref 0 in
    for i = 1 to l do v := (if !v > (max_int lsr 9) then max_int lsr 1 else (!v lsl 8) lor a.(p + i)) done;
    (major, !v, p + 1 + l)
  end else raise Delim

let rec item_end (a : int array) (p : int) : int =
  let (major, arg, q) = head a p in
  match major with
  | 0 | 1 | 7 -> q
  | 2 | 3 -> if q + arg > Array.length a || arg < 0 then raise Delim else q + arg
  | 4 -> let r = ref q in for _ = 1 to arg do r := item_end a !r done; !r
  | 5 -> let r = ref q in for _ = 1 to 2 * arg do r := item_end a !r done; !r
  | _ -> let r = item_end a q in r

(* spans of the top-level blocks of a bundle: (start, end) lists; None if not delimitable *)
let spans (a : int array) : (int * int) list option =
  try
    if Array.length a < 2 || a.(0) <> 0x9f then None else begin
      let res = ref [] in
      let p = ref 1 in
      while !p < Array.length a && a.(!p) <> 0xff do
        let e = item_end a !p in
        if a.(!p) lsr 5 <> 4 then raise Delim;
        res := (!p, e) :: !res; p := e
      done;
      if !p <> Array.length a - 1 then None else Some (List.rev !res)
    end
  with Delim -> None | Invalid_argument _ -> None

(* CRC type of block i (0 = primary: 3rd element; canonical: 4th element) and span of the CRC value bytes *)
let block_crc (a : int array) (idx : int) ((s, e) : int * int) : int * int =
  let (_, _, q) = head a s in
  let skip = if idx = 0 then 2 else 3 in
  let p = ref q in
  for _ = 1 to skip do p := item_end a !p done;
  let (_, t, _) = head a !p in
  let w = match t with 1 -> 2 | 2 -> 4 | _ -> 0 in
  (t, e - w)   (* CRC value occupies [e - w, e) *)

let arr_of_bytes (l : n list) = Array.of_list (List.map int_of_n l)

let flips = function
  | [now; bs; ok0; acc] ->
    let now = s_n now in
    let bytes = s_bytes bs in
    let arr = Array.of_list bytes in
    let accepted = List.map s_int (lst acc) in
    let r = ref [] in
    if not (s_bool ok0) then r := Mismatch "generated bundle rejected by the implementation" :: !r;
    (match dec_bundle now bytes with None -> r := Mismatch "generated bundle rejected by the model" :: !r | Some _ -> ());
    List.iter (fun bit -> r := Propfail ("crc.single-bit.accepted", Printf.sprintf "flip of bit %d accepted" bit) :: !r) accepted;
    let nbits = Array.length arr * 8 in
    let nmodel = ref 0 in
    for bit = 0 to nbits - 1 do
      let m = Array.copy arr in
      let b = int_of_n m.(bit / 8) lxor (1 lsl (bit mod 8)) in
      m.(bit / 8) <- byte_tbl.(b);
      match dec_bundle now (Array.to_list m) with
      | Some _ -> incr nmodel; if not (List.mem bit accepted) then r := Mismatch (Printf.sprintf "model accepts flip of bit %d, implementation rejects" bit) :: !r
      | None -> if List.mem bit accepted then r := Mismatch (Printf.sprintf "implementation accepts flip of bit %d, model rejects" bit) :: !r
    done;
    if !r = [] then [Ok_ ["flips"; Printf.sprintf "bits=%d" (nbits / 1000 * 1000)]] else !r
  | _ -> raise (Bad "flips case")

let burst = function
  | [now; bs; ms; start; length; ok; pn] ->
    let now = s_n now in
    let orig = s_bytes bs and mut = s_bytes ms in
    let a = arr_of_bytes orig and m = arr_of_bytes mut in
    let start = s_int start and length = s_int length in
    let go_ok = s_bool ok in
    let r = ref [] in
    if s_bool pn then r := Propfail ("codec.parser.panic", "ParseBundle panicked") :: !r;
    let model_ok = (match dec_bundle now mut with Some _ -> true | None -> false) in
    if model_ok <> go_ok then r := Mismatch (Printf.sprintf "burst: model %b implementation %b" model_ok go_ok) :: !r;
    (* the independent judge *)
    let tag = ref "burst-noclaim" in
    (if a <> m then
       match spans a, spans m with
       | Some sa, Some sm when sa = sm ->
         (* changed byte range *)
         let lo = ref (-1) and hi = ref (-1) in
         Array.iteri (fun i x -> if x <> m.(i) then (if !lo < 0 then lo := i; hi := i)) a;
         let rec find i = function
           | [] -> None
           | (s, e) :: tl -> if !lo >= s && !hi < e then Some (i, (s, e)) else find (i + 1) tl in
         (match find 0 sa with
          | Some (idx, sp) ->
            let (t, vstart) = block_crc a idx sp in
            let (t', _) = block_crc m idx sp in
            let w = 16 * t in
            (* burst length in the CRC's bit order: from the first to the last changed bit, LSB first *)
            let first_bit = ref (-1) and last_bit = ref (-1) in
            for bit = 0 to Array.length a * 8 - 1 do
              if (a.(bit / 8) lxor m.(bit / 8)) land (1 lsl (bit mod 8)) <> 0 then (if !first_bit < 0 then first_bit := bit; last_bit := bit)
            done;
            let blen = !last_bit - !first_bit + 1 in
            if (t = 1 || t = 2) && t' = t && blen <= w then begin
              let in_value = !lo >= vstart and before_value = !hi < vstart in
              if in_value || before_value then begin
                tag := (if in_value then "burst-in-crc-value" else "burst-in-covered-bytes");
                if go_ok then r := Propfail ("crc.burst.accepted", Printf.sprintf "burst of %d bits at bit %d accepted" blen !first_bit) :: !r
              end else begin
                tag := "burst-straddles-value";
                if go_ok then r := Propfail ("crc.burst.straddles-data-and-value", Printf.sprintf "burst of %d bits at bit %d accepted" blen !first_bit) :: !r
              end
            end
          | None -> ())
       | _ -> ());
    ignore (start, length);
    if !r = [] then [Ok_ [!tag; (if go_ok then "accepted" else "rejected")]] else !r
  | _ -> raise (Bad "burst case")

let () =
  register "C03flips" "flips" flips;
  register "C03flips" "burst" burst
