(* C14 (area IdKeeper): replays the observed scenarios through the extracted model
   (Model.ik_step) and evaluates the property's own checker on what the implementation did. *)
open Model
open Conv
open Sexp
open Verdict

let i = int_of_n
let show3 (a, b, c) = Printf.sprintf "%d-%s-%d" a b c

(* observed records *)
type send = { peer : int; sid : int * string * int; stid : int; sok : bool }
type srec = { key : int * string * int; ftid : int; fid : int * string * int }

let send_of s = match lst s with
  | [p; src; t; seq; tid; ok] -> { peer = s_int p; sid = (s_int src, atom t, s_int seq); stid = s_int tid; sok = s_bool ok }
  | _ -> raise (Bad "send record")
let srec_of s = match lst s with
  | [src; t; seq; tid; fs; ft; fq] -> { key = (s_int src, atom t, s_int seq); ftid = s_int tid; fid = (s_int fs, atom ft, s_int fq) }
  | _ -> raise (Bad ("store record " ^ Sexp.to_string s))

let n_of_3 (a, b, c) = (n_of_int a, n_of_dec b, n_of_int c)

(* model state projected like the observation *)
let model_keeper (s : ik_st) =
  List.sort compare (List.map (fun e -> (i e.ike_src, dec_of_n e.ike_time, i e.ike_cnt)) s.ik_keeper)
let model_store (s : ik_st) =
  List.sort compare (List.map (fun it -> ((i it.it_src, dec_of_n it.it_time, i it.it_seq), i it.it_tid, (i it.it_src, dec_of_n it.it_time, i it.it_fseq))) s.ik_store)

type sub = { tid : int; path : string; src : int; t : string; gen : int; stale : bool; opno : int; vr : int; ahead : bool }

let window = 86400

let scen fields =
  match fields with
  | [] -> raise (Bad "scen")
  | name :: ops ->
    let res = ref [] and tags = ref [] in
    let tag t = if not (List.mem t !tags) then tags := t :: !tags in
    (match name with Atom n when String.length n >= 3 && String.sub n 0 3 = "bnd" -> tag n | _ -> ());
    let fail v = if not (List.mem v !res) then res := v :: !res in
    let st = ref (Some ik_init) in
    let subs : sub list ref = ref [] in
    let gen = ref 0 in
    (* every (tid, id, where) the implementation showed *)
    let seen : (int * (int * string * int) * string) list ref = ref [] in
    let see tid id w = if not (List.mem (tid, id, w) !seen) then seen := (tid, id, w) :: !seen in
    let step_model ev =
      match !st with
      | None -> None
      | Some s ->
        (match ik_step s ev with
         | None -> st := None; fail (Mismatch "model rejects the observed step"); None
         | Some (s', outs) -> st := Some s'; Some outs) in
    let find_sub tid = List.find_opt (fun s -> s.tid = tid) !subs in
    let restart_class a b =
      (* the known finding: zero creation time, a restart between the two submissions *)
      a.t = "0" && b.t = "0" && a.src = b.src && a.gen <> b.gen in
    let opno = ref 0 in
    List.iter (fun op ->
        incr opno;
        let l = lst op in
        let kind = atom (List.hd l) in
        let sends, keeper, store, members, now =
          match kind, List.tl l with
          | ("sub" | "grp"), [ms; now; sd; k; s] -> sd, k, s, lst ms, Some (atom now)
          | ("up" | "down"), [_; sd; k; s] -> sd, k, s, [], None
          | "clean", [now; sd; k; s] -> sd, k, s, [], Some (atom now)
          | ("tick" | "restart"), [sd; k; s] -> sd, k, s, [], None
          | _ -> raise (Bad ("op " ^ kind)) in
        let sends = List.map send_of (lst sends) in
        let okeeper = List.sort compare (List.map (fun e -> match lst e with
            | [a; b; c] -> (s_int a, atom b, s_int c) | _ -> raise (Bad "keeper")) (lst keeper)) in
        let bad_store = List.filter (fun s -> List.length (lst s) <> 7) (lst store) in
        List.iter (fun s -> fail (Propfail ("idkeeper.store.unreadable", Sexp.to_string s))) bad_store;
        let ostore = List.map srec_of (List.filter (fun s -> List.length (lst s) = 7) (lst store)) in
        (* ---------- model ---------- *)
        (match kind with
         | "sub" | "grp" ->
           let ms = List.map (fun m -> match lst m with
               | [p; tid; src; t; vr] ->
                 let t = atom t in
                 let nowi = int_of_string (Option.get now) in
                 let stale = t <> "0" && int_of_string t < nowi - window in
                 let ahead = t <> "0" && int_of_string t > nowi in
                 { tid = s_int tid; path = atom p; src = s_int src; t; gen = !gen; stale; opno = !opno; vr = s_int vr; ahead }
               | _ -> raise (Bad "member")) members in
           subs := !subs @ ms;
           tag kind;
           List.iter (fun m -> tag ("path-" ^ m.path); if m.t = "0" then tag "epoch" ; if m.stale then tag "stale-time";
                       if m.ahead then tag "time-ahead-of-clock"; if m.vr <> 0 then tag "variant") ms;
           (* the order of the counter steps inside a concurrent group is the scheduler's choice:
              take it from the observation (sorted by the number each bundle shows) and let the
              model validate it *)
           let obs_seq m =
             match List.find_opt (fun r -> r.ftid = m.tid) ostore with
             | Some r -> let (_, _, q) = r.fid in q
             | None -> (match List.find_opt (fun s -> s.stid = m.tid) sends with
                 | Some s -> let (_, _, q) = s.sid in q
                 | None -> max_int) in
           let sorted = List.stable_sort (fun a b -> compare (obs_seq a) (obs_seq b)) ms in
           (* members that show no number (not filed, not transmitted - the restart finding) cannot
              be placed by sorting: search the orders for one the model accepts with the observed
              IdKeeper state and store (at most 4! of them) *)
           let ordered =
             if List.for_all (fun m -> obs_seq m <> max_int) ms || List.length ms > 5 then sorted
             else begin
               let rec perms = function
                 | [] -> [[]]
                 | l -> List.concat_map (fun x -> List.map (fun p -> x :: p) (perms (List.filter (fun y -> y != x) l))) l in
               let try_order o =
                 match !st with
                 | None -> false
                 | Some s0 ->
                   let evs = List.map (fun m -> IkAssign (n_of_int m.tid, n_of_int m.src, n_of_dec m.t)) o
                             @ [IkClean (n_of_dec (Option.get now))]
                             @ List.map (fun m -> IkPush (n_of_int m.tid)) o in
                   (match ik_run s0 evs with
                    | Some (s1, _) ->
                      model_keeper s1 = okeeper
                      && model_store s1 = List.sort compare (List.map (fun r -> (r.key, r.ftid, r.fid)) ostore)
                    | None -> false) in
               match List.find_opt try_order (perms sorted) with
               | Some o -> tag "grp-order-searched"; o
               | None -> sorted
             end in
           List.iter (fun m -> ignore (step_model (IkAssign (n_of_int m.tid, n_of_int m.src, n_of_dec m.t)))) ordered;
           List.iter (fun _ -> ignore (step_model (IkClean (n_of_dec (Option.get now))))) ordered;
           List.iter (fun m -> ignore (step_model (IkPush (n_of_int m.tid)))) ordered;
           List.iter (fun s ->
               if not (List.exists (fun m -> m.tid = s.stid) ms) then
                 fail (Mismatch (Printf.sprintf "bundle %d transmitted during the submission of others" s.stid))
               else match step_model (IkSend (n_of_int s.stid, n_of_int s.peer)) with
                 | Some [o] ->
                   let mid = (i o.o_src, dec_of_n o.o_time, i o.o_seq) in
                   if mid <> s.sid then fail (Mismatch (Printf.sprintf "first transmission of bundle %d: model %s impl %s" s.stid (show3 mid) (show3 s.sid)))
                 | _ -> ()) sends
         | "up" | "tick" ->
           tag kind;
           List.iter (fun s ->
               let (a, b, c) = n_of_3 s.sid in
               match step_model (IkRetry (a, b, c, n_of_int s.peer)) with
               | Some [o] ->
                 tag "retry";
                 if (i o.o_src, dec_of_n o.o_time, i o.o_seq) <> s.sid || i o.o_tid <> s.stid then
                   fail (Mismatch (Printf.sprintf "retry of %s: model sends bundle %d as %d, impl bundle %d" (show3 s.sid) (i o.o_tid) (i o.o_seq) s.stid))
               | _ -> ()) sends
         | "clean" -> tag "clean"; ignore (step_model (IkClean (n_of_dec (Option.get now))))
         | "restart" -> tag "restart"; incr gen; ignore (step_model IkRestart)
         | _ -> tag kind);
        (match !st with
         | Some s ->
           if model_keeper s <> okeeper then
             fail (Mismatch (Printf.sprintf "IdKeeper state after op %d (%s): model [%s] impl [%s]" !opno kind
                               (String.concat " " (List.map show3 (model_keeper s))) (String.concat " " (List.map show3 okeeper))));
           let os = List.sort compare (List.map (fun r -> (r.key, r.ftid, r.fid)) ostore) in
           if model_store s <> os then
             fail (Mismatch (Printf.sprintf "store after op %d (%s): model [%s] impl [%s]" !opno kind
                               (String.concat " " (List.map (fun (k, t, f) -> show3 k ^ "=" ^ string_of_int t ^ "/" ^ show3 f) (model_store s)))
                               (String.concat " " (List.map (fun (k, t, f) -> show3 k ^ "=" ^ string_of_int t ^ "/" ^ show3 f) os))))
         | None -> ());
        (* ---------- the property itself, on the implementation's output ---------- *)
        List.iter (fun s -> see s.stid s.sid "wire") sends;
        List.iter (fun r -> see r.ftid r.key "store-key"; see r.ftid r.fid "store-file") ostore;
        (* filed: every bundle submitted by this operation is in the store afterwards (nothing
           deletes a bundle in these scenarios: epidemic routing, destination is no peer) *)
        if kind = "sub" || kind = "grp" then
          List.iter (fun m ->
              if m.opno = !opno && not (List.exists (fun r -> r.ftid = m.tid) ostore) then begin
                let earlier = List.filter (fun o -> o.tid <> m.tid && o.src = m.src && o.t = m.t) !subs in
                if m.stale then tag "stale-time-not-filed"
                else if List.exists (fun o -> restart_class o m) earlier then
                  fail (Propfail ("idkeeper.restart.epoch-seq0",
                                  Printf.sprintf "bundle %d (zero creation time, submitted after a restart) is not filed: the new IdKeeper numbers it like an earlier, still stored bundle" m.tid))
                else
                  fail (Propfail ("idkeeper.not-filed",
                                  Printf.sprintf "bundle %d (source %d time %s, path %s) is not in the store after its submission" m.tid m.src m.t m.path))
              end) !subs;
        (* same number: the key of a store item is the ID of the bundle in its part file *)
        List.iter (fun r -> if r.key <> r.fid then
                      fail (Propfail ("idkeeper.number-mismatch", Printf.sprintf "store key %s holds bundle %d with ID %s" (show3 r.key) r.ftid (show3 r.fid)))) ostore
      ) ops;
    (* over the whole scenario: one ID - one bundle, one bundle - one ID *)
    let ids = List.sort_uniq compare (List.map (fun (_, id, _) -> id) !seen) in
    List.iter (fun id ->
        let tids = List.sort_uniq compare (List.filter_map (fun (t, id', _) -> if id' = id then Some t else None) !seen) in
        match tids with
        | a :: b :: _ ->
          (match find_sub a, find_sub b with
           | Some sa, Some sb ->
             if restart_class sa sb then
               fail (Propfail ("idkeeper.restart.epoch-seq0", Printf.sprintf "bundles %d and %d (zero creation time, restart in between) both appear as %s" a b (show3 id)))
             else if sa.stale || sb.stale then tag "stale-time-dup"
             else fail (Propfail ("idkeeper.dup-id", Printf.sprintf "bundles %d and %d both appear as %s" a b (show3 id)))
           | _ -> fail (Mismatch "unknown bundle"))
        | _ -> ()) ids;
    List.iter (fun m ->
        let mine = List.sort_uniq compare (List.filter_map (fun (t, id, _) -> if t = m.tid then Some id else None) !seen) in
        match mine with
        | a :: b :: _ ->
          fail (Propfail ("idkeeper.number-mismatch",
                          Printf.sprintf "bundle %d appears as %s and as %s (%s)" m.tid (show3 a) (show3 b)
                            (String.concat "," (List.filter_map (fun (t, id, w) -> if t = m.tid then Some (w ^ ":" ^ show3 id) else None) !seen))))
        | _ -> ()) !subs;
    (* distribution tags: pairs with coinciding (source, time) *)
    let rec pairs = function [] -> () | a :: r ->
      List.iter (fun b -> if a.src = b.src && a.t = b.t then begin
                    tag (if a.t = "0" then "pair-epoch" else "pair-same-ms");
                    if a.opno = b.opno then tag "pair-concurrent";
                    if a.ahead && b.ahead then tag "pair-ahead-of-clock";
                    if a.path <> "rp" && b.path <> "rp" then begin
                      if a.vr mod 5 <> b.vr mod 5 then tag "pair-differ-report-to";
                      if a.vr / 5 <> b.vr / 5 then tag "pair-differ-other-fields"
                    end;
                    if a.path = "rp" && b.path = "rp" then tag "pair-reports-same-ms";
                    if a.path <> b.path then tag "pair-mixed-paths" end) r; pairs r in
    pairs !subs;
    if !res = [] then [Ok_ (List.rev !tags)] else List.rev !res

let () = register "C14idkeeper" "scen" scen
