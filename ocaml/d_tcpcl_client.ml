(* driver glue for the session-level part of Model/Tcpcl.v : generator C11client
   (kinds ctrace, crecv, cpair), see harness/tcpcl_client.go *)
open Model
open Conv
open Sexp
open Verdict

let nlen l = n_of_int (List.length l)
let sorted l = List.sort compare l
let rec has_dup = function a :: (b :: _ as r) -> a = b || has_dup r | _ -> false
let rec take k l = if k <= 0 then [] else match l with [] -> [] | x :: l -> x :: take (k - 1) l

(* ---- ctrace: the XFER_SEGMENT trace a scripted peer received from a Client (label client-tcp or client-pipe) or
   from a TransferManager whose Send calls were released by a barrier (label tm-barrier) ----
   (case n ctrace label role m own base conc ((enc result)...) (tid...) (((flags data)...)...) closed other fault k) *)
let ctrace = function
  | [label; role; m; own; base; conc; sent; tids; groups; closed; other; fault; faultk] when s_sym fault <> "none" ->
    (* the scripted peer refuses / closes / stops acknowledging after the k-th segment of the only transfer *)
    let label = s_sym label and role = s_sym role and m = s_n m and own = s_n own and fault = s_sym fault and k = s_int faultk in
    let (enc, result) = match lst sent with [e] -> (match lst e with [b; r] -> (s_bytes b, s_sym r) | _ -> raise (Bad "sent")) | _ -> raise (Bad "sent") in
    let segs = match lst groups with
      | [] -> []
      | [g] -> List.map (fun s -> match lst s with
          | [f; d] -> { sg_flags = s_n f; sg_tid = N0; sg_data = s_bytes d }
          | _ -> raise (Bad "segment")) (lst g)
      | _ -> raise (Bad "groups") in
    let r = ref [] in
    let add v = r := v :: !r in
    let mtu = tcc_segment_mtu own m in
    let msegs = segments enc mtu N0 in
    let rec is_prefix a b = match a, b with [], _ -> true | x :: a, y :: b -> segment_eqb x y && is_prefix a b | _ -> false in
    if not (is_prefix segs msegs) then add (Mismatch "segments seen by the peer are no prefix of the model's");
    if List.length segs < min (k + 1) (List.length msegs) then add (Mismatch "the peer saw fewer segments than it acknowledged");
    let allowed = match fault with
      | "refuse" -> ["refused"]
      | "mute" -> ["timeout"]
      | "close" -> ["stopped"; "timeout"; "readerr"]
      | _ -> raise (Bad "fault") in
    if result <> "ok" && result <> "hang" && not (List.mem result allowed) then
      add (Mismatch (Printf.sprintf "Client.Send under peer script %s after %d: model %s impl %s" fault k (String.concat "|" allowed) result));
    if s_sym closed = "hang" then add (Mismatch "Client.Close hangs");
    ignore (s_int other, s_n base, s_int conc, lst tids);
    (* the property *)
    if result = "ok" then add (Propfail ("tcpcl.send.ok-despite-" ^ fault, "Client.Send returned success although the peer failed (" ^ fault ^ " after segment " ^ string_of_int k ^ ")"));
    if result = "hang" then add (Propfail ("tcpcl.send.hang", "Client.Send returned neither success nor an error"));
    if not (chk_sizes m segs) then
      add (Propfail ("tcpcl.client.segment-exceeds-peer-mru", "the peer announced Segment MRU " ^ dec_of_n m ^ ", a segment is larger (or empty)"));
    if !r = [] then [Ok_ ["ctrace"; label; role; "peer-" ^ fault; "send-" ^ result]] else !r
  | [label; role; m; own; base; conc; sent; tids; groups; closed; other; _; _] ->
    let label = s_sym label and role = s_sym role and m = s_n m and own = s_n own and base = s_n base and conc = s_int conc in
    let is_client = String.length label >= 7 && String.sub label 0 7 = "client-" in
    let sent = List.map (fun e -> match lst e with [b; r] -> (atom b, s_sym r) | _ -> raise (Bad "sent")) (lst sent) in
    let tids = List.map s_n (lst tids) in
    let groups = List.mapi (fun i g ->
        List.map (fun s -> match lst s with
            | [f; d] -> { sg_flags = s_n f; sg_tid = n_of_int i; sg_data = s_bytes d }
            | _ -> raise (Bad "segment")) (lst g)) (lst groups) in
    let r = ref [] in
    let add v = r := v :: !r in
    let nsent = List.length sent in
    (* ---- correspondence ---- *)
    if is_client && own <> tcc_own_segment_mru then
      add (Mismatch ("the Client announced Segment MRU " ^ dec_of_n own ^ ", model " ^ dec_of_n tcc_own_segment_mru));
    let mtu = if is_client then tcc_segment_mtu own m else m in
    List.iteri (fun i g ->
        let data = List.concat (List.map (fun s -> s.sg_data) g) in
        let ms = segments data mtu (n_of_int i) in
        if not (List.length ms = List.length g && List.for_all2 segment_eqb ms g) then
          add (Mismatch (Printf.sprintf "segments of a transfer (%d bytes, %d segments) differ from the model's for segment MTU %s (%d segments)"
                           (List.length data) (List.length g) (dec_of_n mtu) (List.length ms)))) groups;
    if s_sym closed <> "ok" then add (Mismatch ("Client.Close: " ^ s_sym closed));
    if s_int other <> 0 then add (Mismatch "the peer received a message that is neither XFER_SEGMENT, XFER_ACK, KEEPALIVE nor SESS_TERM");
    (* ---- the property, on what the peer received ---- *)
    let all_ok = List.for_all (fun (_, res) -> res = "ok") sent in
    let reused = has_dup (sorted tids) in
    if reused then
      add (Propfail ("tcpcl.transfer-id.reused",
                     Printf.sprintf "two transfers of one session carry the same Transfer ID (%d Send calls, %d sending goroutines; START ids %s)"
                       nsent conc (String.concat "," (List.map dec_of_n tids))))
    else if all_ok && tids <> tcc_alloc_n base (nat_of_int nsent) then
      add (Mismatch ("transfer ids of the session: " ^ String.concat "," (List.map dec_of_n tids)));
    let size_key = if is_client then "tcpcl.client.segment-exceeds-peer-mru" else "tcpcl.segment.size" in
    let complete = ref [] in
    List.iter (fun g ->
        let nstart = List.length (List.filter sg_has_start g) in
        if nstart > 1 then begin
          if not reused then add (Propfail ("tcpcl.start-flag", "a transfer id carries more than one START segment"))
        end else begin
          let data = hex_of_bytes (List.concat (List.map (fun s -> s.sg_data) g)) in
          if not (chk_sizes m g) then
            add (Propfail (size_key,
                           Printf.sprintf "the peer announced Segment MRU %s, a segment carries %d bytes (or none)" (dec_of_n m)
                             (List.fold_left (fun a s -> max a (List.length s.sg_data)) 0 g)));
          if not (chk_start g) then add (Propfail ("tcpcl.start-flag", "START is not on exactly the first segment of a transfer"));
          let ended = chk_end g in
          if not ended && all_ok then add (Propfail ("tcpcl.end-flag", "END is not on exactly the last segment of a transfer"));
          if ended then complete := data :: !complete;
          if not (List.exists (fun (b, _) -> b = data) sent) && (ended || all_ok) then
            add (Propfail ("tcpcl.segment.concat", "the concatenated segments of a transfer are not the encoding of a bundle that was sent"))
        end) groups;
    let complete = sorted !complete in
    let rec sub a b = match a, b with   (* a sub-multiset of b, both sorted *)
      | [], _ -> true
      | _, [] -> false
      | x :: a', y :: b' -> if x = y then sub a' b' else if y < x then sub a b' else false in
    let oks = sorted (List.filter_map (fun (b, res) -> if res = "ok" then Some b else None) sent) in
    if not reused && not (sub oks complete) then
      add (Propfail ("tcpcl.send.ok-but-not-delivered", "Send returned success but the peer did not obtain the complete transfer including its end"));
    if not reused && not (sub complete (sorted (List.map fst sent))) then
      add (Propfail ("tcpcl.deliver.not-exactly-once", "the peer obtained a bundle twice or one that was never sent"));
    if not all_ok then
      add (Propfail ((if conc > 1 then "tcpcl.concurrent.send-failed" else "tcpcl.session.send-failed"),
                     Printf.sprintf "a Send on a healthy session returned an error (%s)"
                       (String.concat "," (List.map snd sent))));
    (* the extracted checker of C11_session_sender agrees with the verdict above *)
    if !r = [] then begin
      let xs = List.mapi (fun i g -> (n_of_int i, List.concat (List.map (fun s -> s.sg_data) g))) groups in
      if not (tcc_chk_trace m xs (List.concat groups)) then add (Mismatch "tcc_chk_trace rejects a trace the single checks accept")
    end;
    if !r = [] then begin
      let maxl = List.fold_left (fun a (b, _) -> max a ((String.length b - 1) / 2)) 0 sent in
      let nseg = List.fold_left (fun a g -> a + List.length g) 0 groups in
      [Ok_ ["ctrace"; label; role;
            (if N.ltb (n_of_int maxl) m then "mru>L" else if N.leb m (n_of_int 10) then "mru<=10" else "mru<=L");
            (if N.ltb tc_max_segment m then "mru>cap" else "mru<=cap");
            (if nsent = 1 then "one-bundle" else "multi-bundle");
            (if conc > 1 then "concurrent-senders" else "sequential");
            (if nseg > nsent then "multi-segment" else "single-segment")]]
    end else !r
  | _ -> raise (Bad "ctrace case")

(* judge a snapshot of the bundles handed up so far against the bundles the property says must
   have been handed up (sorted multiset) *)
let judge add name prev cur expected =
  let ncur = List.length cur and nexp = List.length expected in
  if ncur < nexp then begin
    add (Propfail ("tcpcl.client.report-missing", Printf.sprintf "%s: %d bundles completely received, %d handed up" name nexp ncur)); false
  end else if ncur > nexp then begin
    add (Propfail ("tcpcl.client.report-extra", Printf.sprintf "%s: %d bundles completely received, %d handed up" name nexp ncur)); false
  end else if sorted cur <> expected then begin
    let rec changed p c = match p, c with x :: p, y :: c -> x <> y || changed p c | _ -> false in
    if changed prev cur then
      add (Propfail ("tcpcl.client.handed-up-bundle-changed",
                     name ^ ": a bundle handed up earlier is a different bundle after later bundles arrived (an earlier bundle is lost, a later one is there twice)"))
    else
      add (Propfail ("tcpcl.client.handed-up-bundle-differs",
                     name ^ ": the bundles handed up are not the bundles sent, each once (one is there twice and another never, or the content differs)"));
    false
  end else true

(* ---- crecv: scripted peer -> Client ----
   (case n crecv transport role ((tid enc)...) ((segs acks snapshot ackok repok)...) final status) *)
let crecv = function
  | [transport; role; xfers; phases; final; status] ->
    let xfers = List.map (fun x -> match lst x with [t; e] -> (s_n t, atom e) | _ -> raise (Bad "xfer")) (lst xfers) in
    let status = s_sym status in
    let r = ref [] in
    let add v = r := v :: !r in
    let tr = ref [] and prev = ref [] and stalled = ref false and nph = ref 0 and nseg = ref 0 in
    let expected_of tr =   (* by the property: the bundles whose END has been sent, in that order *)
      List.filter_map (fun s -> if sg_has_end s then Some (List.assoc s.sg_tid xfers) else None) tr in
    let check name snap =
      let exp = expected_of !tr in
      if judge add name !prev snap (sorted exp) then begin
        let model = List.map hex_of_bytes (tcc_reports !tr) in
        if model <> snap then add (Mismatch (name ^ ": reports differ from the model's (order)"))
      end;
      prev := snap in
    List.iter (fun ph -> match lst ph with
        | [segs; acks; snap; ackok; repok] when not !stalled ->
          incr nph;
          let segs = List.map (fun s -> match lst s with
              | [f; t; d] -> { sg_flags = s_n f; sg_tid = s_n t; sg_data = s_bytes d }
              | _ -> raise (Bad "segment")) (lst segs) in
          nseg := !nseg + List.length segs;
          tr := !tr @ segs;
          let name = Printf.sprintf "after phase %d" !nph in
          if not (s_bool ackok) then begin
            stalled := true;
            add (Propfail ("tcpcl.client.receiver-stalls",
                           Printf.sprintf "%s: the Client acknowledged %d of %d segments and then nothing more although the peer keeps reading (%s)"
                             name (List.length (lst acks)) (List.length !tr) (s_sym transport)))
          end else begin
            let acks = List.map (fun a -> match lst a with
                | [f; t; l] -> { ak_flags = s_n f; ak_tid = s_n t; ak_len = s_n l }
                | _ -> raise (Bad "ack")) (lst acks) in
            let macks = rx_acks !tr in
            if not (List.length macks = List.length acks && List.for_all2 ack_eqb macks acks) then
              add (Mismatch (name ^ ": acknowledgements differ from the model's"));
            ignore (s_bool repok);
            check name (List.map atom (lst snap))
          end
        | [_; _; _; _; _] -> ()
        | _ -> raise (Bad "phase")) (lst phases);
    if not !stalled then begin
      check "after the session was closed" (List.map atom (lst final));
      if status <> "ok" then add (Mismatch ("session: " ^ status))
    end;
    if !r = [] then
      [Ok_ ["crecv"; "client-" ^ s_sym transport; s_sym role;
            (if List.length xfers = 1 then "one-bundle" else "multi-bundle");
            (if !nph = 1 then "one-burst" else if !nph >= List.length xfers then "paced" else "phased");
            (if !nseg > 64 then "segments>64" else "segments<=64");
            (if List.length (expected_of !tr) < List.length xfers then "incomplete-transfer" else "all-complete")]]
    else !r
  | _ -> raise (Bad "crecv case")

(* ---- cpair: Client <-> Client ----
   (case n cpair transport class ((sentAB sentBA snapB snapA okB okA)...) status) *)
let cpair = function
  | [transport; cls; phases; status] ->
    let cls = s_sym cls in
    let r = ref [] in
    let add v = r := v :: !r in
    let sent_of s = List.map (fun e -> match lst e with [b; r] -> (atom b, s_sym r) | _ -> raise (Bad "sent")) (lst s) in
    let all_b = ref [] and all_a = ref [] and prev_b = ref [] and prev_a = ref [] in
    let nsend = ref 0 and nph = ref 0 and conc = ref false in
    let model_reports encs =
      (* the model of the session: transfer i with the peer's (= the own) Segment MRU, any interleaving *)
      let mtu = tcc_segment_mtu tcc_own_segment_mru tcc_own_segment_mru in
      let tr = List.concat (List.mapi (fun i e -> segments (bytes_of_hexatom e) mtu (n_of_int i)) encs) in
      sorted (List.map hex_of_bytes (tcc_reports tr)) in
    List.iter (fun ph -> match lst ph with
        | [sb; sa; snapb; snapa; okb; oka] ->
          incr nph;
          let sb = sent_of sb and sa = sent_of sa in
          nsend := !nsend + List.length sb + List.length sa;
          if sb <> [] && sa <> [] then conc := true;
          List.iter (fun (_, res) ->
              if res <> "ok" then
                add (Propfail ("tcpcl.concurrent.send-failed", "a Send on a healthy Client-to-Client session returned an error (" ^ res ^ ")")))
            (sb @ sa);
          all_b := !all_b @ List.map fst sb;
          all_a := !all_a @ List.map fst sa;
          let dir name prev snap all ok =
            let snap = List.map atom (lst snap) in
            ignore (s_bool ok);
            if judge add (Printf.sprintf "%s, phase %d" name !nph) !prev snap (sorted all) then
              if model_reports all <> sorted snap then add (Mismatch (name ^ ": reports differ from the model's"));
            prev := snap in
          dir "A->B" prev_b snapb !all_b okb;
          dir "B->A" prev_a snapa !all_a oka
        | _ -> raise (Bad "phase")) (lst phases);
    if !r = [] && s_sym status <> "ok" then add (Mismatch ("session: " ^ s_sym status));
    (* bulk in both directions: one key for the whole class *)
    if cls = "bulk" && List.exists (function Propfail _ -> true | _ -> false) !r then
      r := [Propfail ("tcpcl.pair.bulk-both-directions-stalls",
                      Printf.sprintf "the two Clients of a session send %d bundles in total at the same moment (more messages in flight per direction than the session's queues hold): the session stalls for good, Sends time out, bundles are never handed up (%s)"
                        !nsend (s_sym transport))];
    if !r = [] then
      [Ok_ ["cpair"; "client-" ^ s_sym transport; "class-" ^ cls; (if !conc then "both-directions" else "one-direction");
            (if !nph > 2 then "several-phases" else "one-phase"); Printf.sprintf "bundles-%d0s" (!nsend / 10)]]
    else !r
  | _ -> raise (Bad "cpair case")

(* ---- cbusy: a session that lasts longer than the keepalive interval K the peer announced, with transfers in both
   directions all the time (no gap above K/3 on the harness's clock), so that no KEEPALIVE is ever needed.
   (case n cbusy <the 13 fields of ctrace> K status (xfer...) (handed-up...) acked) ---- *)
let cbusy fields =
  let rec drop k l = if k <= 0 then l else match l with [] -> [] | _ :: l -> drop (k - 1) l in
  match drop 13 fields with
  | [k; status; xfers; held; acked] ->
    let k = s_int k and status = s_sym status and acked = s_bool acked in
    if status = "unsteady" then [Ok_ ["cbusy"; "inconclusive-harness-unsteady"]]
    else if status = "nosession" then [Mismatch "cbusy: the session was not established"]
    else begin
      let r = ref [] and tags = ref ["cbusy"; Printf.sprintf "keepalive-%d" k] in
      let add v = r := v :: !r in
      if status = "lost" then
        add (Propfail ("tcpcl.busy.session-lost",
                       Printf.sprintf "the Client ended a session on which transfer messages arrived all the time (keepalive interval %d s announced by the peer, no gap above a third of it); the transfers in progress are cut off" k));
      if (not acked) && status <> "lost" then
        add (Propfail ("tcpcl.busy.not-acknowledged", "a transfer of the peer was not acknowledged completely"));
      let xs = List.map atom (lst xfers) and hs = List.map atom (lst held) in
      if hs <> xs then
        add (Propfail ("tcpcl.busy.not-handed-up",
                       Printf.sprintf "the peer sent %d transfers, %d bundles were handed up (or they differ)" (List.length xs) (List.length hs)));
      List.iter (function
          | Ok_ ts -> tags := !tags @ List.filter (fun t -> t <> "ctrace") ts
          | v -> add v) (ctrace (take 13 fields));
      if !r = [] then [Ok_ !tags] else List.rev !r
    end
  | _ -> raise (Bad "cbusy case")

let () =
  register "C11client" "cbusy" cbusy;
  register "C11client" "ctrace" ctrace;
  register "C11client" "crecv" crecv;
  register "C11client" "cpair" cpair
