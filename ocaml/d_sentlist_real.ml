(* C13 (area SentList), events on the real path (status channel of a convergence layer ->
   cla.Manager -> Core.handler): the property's checker on the per-peer send log, and the extracted
   model (Model.sl_step) replayed on the transmissions of every bundle: each transmission has to be a
   choice the model allows in the state reached so far (one SlChoose of that peer alone, then SlOk). *)
open Model
open Conv
open Sexp
open Verdict

let real fields =
  match fields with
  | [_name; algo; stall; rounds; bundles] ->
    let algo = atom algo in
    let res = ref [] and tags = ref [] in
    let tag t = if not (List.mem t !tags) then tags := t :: !tags in
    let fail v = if not (List.mem v !res) then res := v :: !res in
    let pf kind detail = fail (Propfail ("sentlist." ^ algo ^ ".real-path." ^ kind, detail)) in
    if s_bool stall then fail (Mismatch "harness: the events of a round were not processed within 60 s");
    List.iter (fun r -> List.iter (fun e -> match lst e with
        | k :: _ -> tag (atom k)
        | [] -> ()) (lst r)) (lst rounds);
    List.iter (fun b -> match lst b with
        | [b; prev; peers] ->
          let b = s_int b and prev = s_int prev in
          tag (if prev = 0 then "prev-none" else if prev = 9 then "prev-elsewhere" else "prev-peer");
          let st = ref (Some (sl_fresh (if prev = 0 then None else Some (n_of_int prev)))) in
          if lst peers = [] then tag "not-offered";
          List.iter (fun p -> match lst p with
              | [p; outs] ->
                let p = s_int p and outs = List.map s_bool (lst outs) in
                (* ---- the property, on the log alone ---- *)
                if p = prev then pf "return-to-previous-node" (Printf.sprintf "bundle %d is sent to peer %d, its previous node" b p);
                let rec dup acked = function
                  | [] -> ()
                  | ok :: rest ->
                    if acked then pf "duplicate" (Printf.sprintf "bundle %d is sent to peer %d again after a successful transmission" b p)
                    else dup (acked || ok) rest in
                dup false outs;
                if List.length outs = 1 && p <> prev then tag "offered-once";
                (* ---- the model ---- *)
                List.iter (fun ok ->
                    match !st with
                    | None -> ()
                    | Some s ->
                      (match sl_step s (SlChoose ([n_of_int p], nat_of_int 1)) with
                       | Some (s', [q]) when int_of_n q = p ->
                         (match sl_step s' (if ok then SlOk q else SlFail q) with
                          | Some (s'', _) -> st := Some s''
                          | None -> st := None)
                       | _ ->
                         st := None;
                         fail (Mismatch (Printf.sprintf "bundle %d: the model does not offer it to peer %d (previous node %d, sent [%s])" b p prev
                                           (String.concat " " (List.map (fun q -> string_of_int (int_of_n q)) s.sl_sent)))))) outs
              | _ -> raise (Bad "peer")) (lst peers)
        | _ -> raise (Bad "bundle")) (lst bundles);
    if !res = [] then [Ok_ (algo :: "real-path" :: List.rev !tags)] else List.rev !res
  | _ -> raise (Bad "real")

let () = register "C13realpath" "real" real
