(* minimal S-expression reader *)
type t = Atom of string | List of t list

exception Parse_error of string

let parse (s : string) : t =
  let n = String.length s in
  let pos = ref 0 in
  let rec skip () = if !pos < n && (s.[!pos] = ' ' || s.[!pos] = '\n' || s.[!pos] = '\t') then (incr pos; skip ()) in
  let rec item () =
    skip ();
    if !pos >= n then raise (Parse_error "eof");
    if s.[!pos] = '(' then begin
      incr pos;
      let acc = ref [] in
      let fin = ref false in
      while not !fin do
        skip ();
        if !pos >= n then raise (Parse_error "unclosed");
        if s.[!pos] = ')' then (incr pos; fin := true)
        else acc := item () :: !acc
      done;
      List (List.rev !acc)
    end else begin
      let st = !pos in
      while !pos < n && s.[!pos] <> ' ' && s.[!pos] <> ')' && s.[!pos] <> '(' && s.[!pos] <> '\n' do incr pos done;
      Atom (String.sub s st (!pos - st))
    end
  in
  item ()

let rec to_string = function
  | Atom a -> a
  | List l -> "(" ^ String.concat " " (List.map to_string l) ^ ")"
