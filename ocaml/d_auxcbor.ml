(* driver glue for the CBOR-based auxiliary formats: generators C17auxcbor and C04auxcbor *)
open Model
open Conv
open Sexp
open Verdict

let ax_str_of_bytes (l : n list) : string =
  let b = Buffer.create 16 in List.iter (fun x -> Buffer.add_char b (Char.chr (int_of_n x land 255))) l; Buffer.contents b
let ax_bytes_of_str (s : string) : n list = List.init (String.length s) (fun i -> byte_tbl.(Char.code s.[i]))
let b01 b = if b then "1" else "0"

(* ---- model values -> the dump format of harness/auxcbor.go ---- *)
let dump_eid = function
  | DtnNone -> "(none)"
  | Dtn (nd, dm) -> "(dtn " ^ hex_of_bytes nd ^ " " ^ hex_of_bytes dm ^ ")"
  | Ipn (a, b) -> "(ipn " ^ dec_of_n a ^ " " ^ dec_of_n b ^ ")"
let dump_bid (b : bid) =
  Printf.sprintf "(bid %s %s %s %s %s %s)" (dump_eid b.bid_src) (dec_of_n b.bid_time) (dec_of_n b.bid_seq)
    (b01 b.bid_frag) (dec_of_n b.bid_off) (dec_of_n b.bid_total)
let dump_item (i : sitem) = Printf.sprintf "(it %s %s %s)" (b01 i.si_asserted) (dec_of_n i.si_time) (b01 i.si_req)
let dump_sr (s : sreport) =
  Printf.sprintf "(sr (%s) %s %s)" (String.concat " " (List.map dump_item s.sr_items)) (dec_of_n s.sr_reason) (dump_bid s.sr_ref)
let dump_ann (a : ann) = Printf.sprintf "(ann %s %s %s)" (dec_of_n a.an_type) (dump_eid a.an_eid) (dec_of_n a.an_port)
let dump_wam (w : wam) =
  let mk code text resp b = Printf.sprintf "(wam %d %s %s %s)" code (hex_of_bytes text) (hex_of_bytes resp) b in
  match w with
  | WStatus m -> mk 0 m [] "()"
  | WRegister e -> mk 1 e [] "()"
  | WBundle b -> mk 2 [] [] (match enc_bundle b with Some e -> "(b " ^ hex_of_bytes e ^ ")" | None -> "(unencodable)")
  | WSysReq q -> mk 3 q [] "()"
  | WSysResp (q, p) -> mk 4 q p "()"
let dump_aux = function
  | XCts (t, s) -> Printf.sprintf "(cts %s %s)" (dec_of_n t) (dec_of_n s)
  | XEid e -> dump_eid e
  | XBid b -> dump_bid b
  | XSitem i -> dump_item i
  | XSreport s -> dump_sr s
  | XAdmrec s -> "(ar " ^ dump_sr s ^ ")"
  | XAnn a -> dump_ann a
  | XAnns l -> "(anns (" ^ String.concat " " (List.map dump_ann l) ^ "))"
  | XWam w -> dump_wam w

(* ---- dumps -> model values ---- *)
let eid_of_s s = match lst s with
  | [Atom "none"] -> DtnNone
  | [Atom "dtn"; nd; dm] -> Dtn (s_bytes nd, s_bytes dm)
  | [Atom "ipn"; a; b] -> Ipn (s_n a, s_n b)
  | _ -> raise (Bad ("eid dump: " ^ Sexp.to_string s))
let bid_of_s s = match lst s with
  | [Atom "bid"; e; t; sq; f; o; tot] ->
    { bid_src = eid_of_s e; bid_time = s_n t; bid_seq = s_n sq; bid_frag = s_bool f; bid_off = s_n o; bid_total = s_n tot }
  | _ -> raise (Bad "bid dump")
let item_of_s s = match lst s with
  | [Atom "it"; a; t; r] -> { si_asserted = s_bool a; si_time = s_n t; si_req = s_bool r }
  | _ -> raise (Bad "item dump")
let sr_of_s s = match lst s with
  | [Atom "sr"; its; reason; b] -> { sr_items = List.map item_of_s (lst its); sr_reason = s_n reason; sr_ref = bid_of_s b }
  | _ -> raise (Bad "sr dump")
let ann_of_s s = match lst s with
  | [Atom "ann"; t; e; p] -> { an_type = s_n t; an_eid = eid_of_s e; an_port = s_n p }
  | _ -> raise (Bad "ann dump")
let aux_of_s (now : n) s : aux = match lst s with
  | [Atom "cts"; t; sq] -> XCts (s_n t, s_n sq)
  | Atom "none" :: _ | Atom "dtn" :: _ | Atom "ipn" :: _ -> XEid (eid_of_s s)
  | Atom "bid" :: _ -> XBid (bid_of_s s)
  | Atom "it" :: _ -> XSitem (item_of_s s)
  | Atom "sr" :: _ -> XSreport (sr_of_s s)
  | [Atom "ar"; sr] -> XAdmrec (sr_of_s sr)
  | Atom "ann" :: _ -> XAnn (ann_of_s s)
  | [Atom "anns"; l] -> XAnns (List.map ann_of_s (lst l))
  | [Atom "wam"; code; text; resp; b] ->
    (match s_int code with
     | 0 -> XWam (WStatus (s_bytes text))
     | 1 -> XWam (WRegister (s_bytes text))
     | 2 -> (match lst b with
         | [Atom "b"; bytes] -> (match dec_bundle now (s_bytes bytes) with
             | Some (bd, []) -> XWam (WBundle bd)
             | _ -> raise (Bad "wam bundle: the model does not read the harness's bundle"))
         | _ -> raise (Bad "wam bundle dump"))
     | 3 -> XWam (WSysReq (s_bytes text))
     | 4 -> XWam (WSysResp (s_bytes text, s_bytes resp))
     | _ -> raise (Bad "wam code"))
  | _ -> raise (Bad ("aux dump: " ^ Sexp.to_string s))

let kind_of_sym = function
  | "cts" -> KCts | "eid" -> KEid | "bid0" -> KBid false | "bid1" -> KBid true | "sitem" -> KSitem
  | "sreport" -> KSreport | "admrec" -> KAdmrec | "ann" -> KAnn | "anns" -> KAnns | "wam" -> KWam
  | k -> raise (Bad ("kind " ^ k))

let site_of_kind = function
  | "admrec" | "sreport" -> "statusreport.items"
  | "anns" -> "announcements"
  | "bfm" -> "buildfrommap"
  | k -> k

let wf_lite (x : aux) : bool = aux_wf (fun _ -> true) x

(* ---- the reject clause judged on what the implementation accepted (independent of the model) ---- *)
let rec accepted_code_checks (s : Sexp.t) : verdict list =
  match s with
  | List [Atom "sr"; its; reason; _] ->
    let r = ref [] in
    if N.ltb max_reason (s_n reason) then
      r := Propfail ("aux.code.accepted.reason", "status report with unknown reason code " ^ atom reason ^ " accepted") :: !r;
    ignore its; !r
  | List [Atom "ann"; t; _; _] ->
    if cla_type_ok (s_n t) then [] else [Propfail ("aux.code.accepted.clatype", "announcement with unknown CLA type " ^ atom t ^ " accepted")]
  | List l -> List.concat (List.map accepted_code_checks l)
  | Atom _ -> []

(* compare an observation (ok <dump> consumed) | (err) | (panic m) with the model's result *)
let compare_dec (kind : string) (total : int) (obs : Sexp.t) (m : aux res) : verdict list * string =
  match lst obs, m with
  | [Atom "panic"; msg], _ ->
    [Propfail ("aux.panic." ^ site_of_kind kind, "decoder panicked: " ^ ax_str_of_bytes (s_bytes msg))], "panic"
  | [Atom "err"], Ok _ -> [Mismatch "model accepts, implementation rejects"], "err"
  | [Atom "err"], _ -> [], "reject"
  | [Atom "ok"; dump; consumed], Ok (v, rest) ->
    let r = ref (accepted_code_checks dump) in
    let md = dump_aux v in
    if md <> Sexp.to_string dump then r := Mismatch ("decoded value differs: model " ^ (if String.length md > 300 then String.sub md 0 300 else md)) :: !r;
    let c = int_of_string (atom consumed) in
    let mc = total - List.length rest in
    if c >= 0 && c <> mc then r := Mismatch (Printf.sprintf "consumed: model %d impl %d" mc c) :: !r;
    !r, "accept"
  | [Atom "ok"; dump; _], _ -> Mismatch "implementation accepts, model rejects" :: accepted_code_checks dump, "accept"
  | _ -> raise (Bad ("observation: " ^ Sexp.to_string obs))

(* ---- C17auxcbor ---- *)
let h_rt = function
  | [now; kind; value; enc; tail; dec] ->
    let now = s_n now in
    let kind = s_sym kind in
    let x = aux_of_s now value in
    let wf = wf_lite x in
    let r = ref [] in
    let tags = ref ["rt"; kind; (if wf then "wf" else "outside-wf")] in
    let fail why = r := Propfail ("aux.roundtrip." ^ kind, why) :: !r in
    (match lst enc, enc_aux x with
     | [Atom "err"], None -> tags := "enc-refused" :: !tags; if wf then fail "the encoder refuses a well-formed value"
     | [Atom "err"], Some _ -> r := Mismatch "model encodes, implementation refuses" :: !r; if wf then fail "the encoder refuses a well-formed value"
     | [Atom "ok"; _], None -> r := Mismatch "implementation encodes, model refuses" :: !r
     | [Atom "ok"; bytes], Some mb ->
       let bytes = s_bytes bytes in
       if mb <> bytes then r := Mismatch ("encoding differs: model " ^ hex_of_bytes mb) :: !r;
       let full = bytes @ s_bytes tail in
       let m = dec_aux now (kind_of_sym kind) full in
       let vs, t = compare_dec kind (List.length full) dec m in
       r := vs @ !r; tags := t :: !tags;
       if wf then begin
         match lst dec with
         | [Atom "ok"; dump; consumed] ->
           if Sexp.to_string dump <> Sexp.to_string value then fail "decoding its own encoding gives a different value";
           let c = int_of_string (atom consumed) in
           if c >= 0 && c <> List.length bytes then fail (Printf.sprintf "decoder consumed %d bytes of an encoding of %d" c (List.length bytes))
         | [Atom "panic"; _] -> ()
         | _ -> fail "its own encoding is rejected"
       end
     | _ -> raise (Bad "enc"));
    if !r = [] then [Ok_ !tags] else !r
  | _ -> raise (Bad "rt fields")

let h_dec = function
  | [now; kind; bytes; obs] ->
    let now = s_n now in
    let kind = s_sym kind in
    let bytes = s_bytes bytes in
    let m = dec_aux now (kind_of_sym kind) bytes in
    let vs, t = compare_dec kind (List.length bytes) obs m in
    if vs = [] then [Ok_ ["dec"; kind; t]] else vs
  | _ -> raise (Bad "dec fields")

let h_stream = function
  | [now; vals; bytes; back; remaining] ->
    let now = s_n now in
    let vals = List.map (fun v -> match lst v with [k; d; l] -> (s_sym k, d, s_int l) | _ -> raise (Bad "stream val")) (lst vals) in
    let bytes = s_bytes bytes in
    let back = List.map (fun b -> match lst b with [o; c] -> (o, s_int c) | _ -> raise (Bad "stream back")) (lst back) in
    let r = ref [] in
    let xs = List.map (fun (_, d, _) -> aux_of_s now d) vals in
    let all_wf = List.for_all wf_lite xs in
    (* the property itself on the implementation's output *)
    if all_wf then begin
      let ok = ref true in
      List.iter2 (fun (_, d, l) (o, c) ->
          match lst o with
          | [Atom "ok"; d'] -> if Sexp.to_string d' <> Sexp.to_string d || c <> l then ok := false
          | _ -> ok := false) vals back;
      let total = List.fold_left (fun a (_, _, l) -> a + l) 0 vals in
      if s_int remaining <> List.length bytes - total then ok := false;
      if not !ok then r := Propfail ("aux.stream.misaligned", "messages read back from one stream differ from those written or the reader is not at the end of the last one") :: !r
    end;
    List.iter (fun (o, _) -> match lst o with
        | [Atom "panic"; _] -> r := Propfail ("aux.panic.stream", "decoder panicked") :: !r
        | [Atom "ok"; d] -> r := accepted_code_checks d @ !r
        | _ -> ()) back;
    (* correspondence *)
    (match dec_stream now (List.map (fun (k, _, _) -> kind_of_sym k) vals) bytes with
     | Ok (ms, rest) ->
       List.iter2 (fun mx (o, _) -> match lst o with
           | [Atom "ok"; d] -> if dump_aux mx <> Sexp.to_string d then r := Mismatch ("stream element differs: model " ^ dump_aux mx) :: !r
           | _ -> r := Mismatch "model reads a stream element the implementation rejects" :: !r) ms back;
       if List.length rest <> s_int remaining then r := Mismatch "stream rest differs" :: !r
     | _ ->
       if List.for_all (fun (o, _) -> match lst o with [Atom "ok"; _] -> true | _ -> false) back then
         r := Mismatch "implementation reads the whole stream, model does not" :: !r);
    if !r = [] then [Ok_ ["stream"; (if all_wf then "wf" else "outside-wf"); Printf.sprintf "len%d" (min 8 (List.length vals))]] else !r
  | _ -> raise (Bad "stream fields")

(* strip leading zeros of the two numbers of an ipn URI (the only freedom the grammar leaves) *)
let canon_uri (s : string) : string =
  let strip d = let n = String.length d in let i = ref 0 in while !i < n - 1 && d.[!i] = '0' do incr i done; String.sub d !i (n - !i) in
  if String.length s > 4 && String.sub s 0 4 = "ipn:" then
    let rest = String.sub s 4 (String.length s - 4) in
    match String.index_opt rest '.' with
    | Some i when i > 0 && i < String.length rest - 1 -> "ipn:" ^ strip (String.sub rest 0 i) ^ "." ^ strip (String.sub rest (i + 1) (String.length rest - i - 1))
    | _ -> s
  else s

let uri_checks (s : string) (obs : Sexp.t) : verdict list * string =
  let m = eid_parse (ax_bytes_of_str s) in
  match lst obs, m with
  | [Atom "panic"; msg], _ -> [Propfail ("aux.panic.uri", "NewEndpointID panicked: " ^ ax_str_of_bytes (s_bytes msg))], "panic"
  | [Atom "err"], None -> [], "reject"
  | [Atom "err"], Some _ -> [Mismatch "model accepts the URI, implementation rejects"], "reject"
  | Atom "ok" :: e :: more, _ ->
    let r = ref [] in
    let ev = eid_of_s e in
    (match m with
     | None -> r := Mismatch "implementation accepts the URI, model rejects" :: !r
     | Some me -> if dump_eid me <> Sexp.to_string e then r := Mismatch ("parsed structure differs: model " ^ dump_eid me) :: !r);
    (* the property on the implementation's output *)
    if not (eid_valid ev) then r := Propfail ("eid.uri.accepted-malformed", "accepted URI gives an invalid endpoint structure") :: !r;
    (match more with
     | [printed; reparse] ->
       let p = ax_str_of_bytes (s_bytes printed) in
       if ax_str_of_bytes (eid_print ev) <> p then r := Mismatch ("printed form differs: model " ^ ax_str_of_bytes (eid_print ev)) :: !r;
       if canon_uri s <> p then r := Propfail ("eid.uri.accepted-malformed", "accepted URI is not the printed form of its structure (up to leading zeros)") :: !r;
       (match lst reparse with
        | [Atom "ok"; e2] when Sexp.to_string e2 = Sexp.to_string e -> ()
        | _ -> r := Propfail ("eid.uri.roundtrip", "printing and parsing an accepted endpoint does not give it back") :: !r)
     | _ -> ());
    !r, "accept"
  | _ -> raise (Bad "uri observation")

let h_uri = function
  | [_; s; obs] ->
    let vs, t = uri_checks (ax_str_of_bytes (s_bytes s)) obs in
    if vs = [] then [Ok_ ["uri"; t]] else vs
  | _ -> raise (Bad "uri fields")

let h_uristruct = function
  | [_; e; printed; obs] ->
    let ev = eid_of_s e in
    let p = ax_str_of_bytes (s_bytes printed) in
    let r = ref [] in
    if ax_str_of_bytes (eid_print ev) <> p then r := Mismatch ("String() differs: model " ^ ax_str_of_bytes (eid_print ev)) :: !r;
    (match lst obs with
     | [Atom "ok"; e2; _; _] when Sexp.to_string e2 = Sexp.to_string e -> ()
     | [Atom "panic"; _] -> r := Propfail ("aux.panic.uri", "NewEndpointID panicked") :: !r
     | _ -> if eid_valid ev then r := Propfail ("eid.uri.roundtrip", "the printed form of a valid endpoint does not parse back to it") :: !r);
    let vs, _ = uri_checks p obs in
    let r = vs @ !r in
    if r = [] then [Ok_ ["uristruct"; (match ev with DtnNone -> "none" | Dtn _ -> "dtn" | Ipn _ -> "ipn")]] else r
  | _ -> raise (Bad "uristruct fields")

(* ---- C04auxcbor ---- *)
(* what the library code around the modelled allocations may take per input byte and per call
   (regexp compilation per endpoint, reflection, error values, JSON); see the trusted base *)
let slack_const = 131072
let slack_per_byte = 2048

let adec_kind (now : n) (kind : string) (bs : n list) : aux ares = adec_aux true now (kind_of_sym kind) bs

let h_child = function
  | [now; kind; bytes; obs; alloc] ->
    let now = s_n now in
    let kind = s_sym kind in
    let site = site_of_kind kind in
    let bytes = s_bytes bytes in
    let len = List.length bytes in
    let alloc = int_of_string (atom alloc) in
    let r = ref [] in
    let tag = ref "" in
    (match lst obs with
     | [Atom "oom"] -> r := [Propfail ("aux.alloc.unbounded." ^ site, Printf.sprintf "out of memory on an input of %d bytes" len)]; tag := "oom"
     | [Atom "timeout"] -> r := [Propfail ("aux.hang." ^ site, "decoder did not return within 10 s")]; tag := "timeout"
     | [Atom "crash"] -> r := [Propfail ("aux.crash." ^ site, "the process died")]; tag := "crash"
     | [Atom "panic"; msg] -> r := [Propfail ("aux.panic." ^ site, "panic: " ^ ax_str_of_bytes (s_bytes msg))]; tag := "panic"
     | _ ->
       (match kind with
        | "bfm" ->
          (match lst obs with
           | [Atom "err"] -> tag := "reject"
           | [Atom "ok"; List [Atom "valid"; v]; _] ->
             tag := "accept";
             if not (s_bool v) then r := [Propfail ("aux.buildfrommap.invalid", "BuildFromMap returned a bundle that fails CheckValid")]
           | _ -> raise (Bad "bfm observation"));
          if alloc > slack_const + slack_per_byte * len then
            r := Propfail ("aux.alloc.unbounded." ^ site, Printf.sprintf "%d bytes allocated for a request of %d bytes" alloc len) :: !r
        | "uri" ->
          let vs, t = uri_checks (ax_str_of_bytes bytes) obs in
          r := vs; tag := t;
          if alloc > slack_const + slack_per_byte * len then
            r := Propfail ("aux.alloc.unbounded." ^ site, Printf.sprintf "%d bytes allocated for a URI of %d bytes" alloc len) :: !r
        | _ ->
          let m = adec_kind now kind bytes in
          let vs, t = compare_dec kind len obs (to_res m) in
          r := vs; tag := t;
          if is_panic m then r := Mismatch "model predicts a panic" :: !r;
          let bound = int_of_n (cost_of m) + slack_const + slack_per_byte * len in
          if alloc > bound then
            r := Propfail ("aux.alloc.unbounded." ^ site,
                           Printf.sprintf "%d bytes allocated for an input of %d bytes (account of the model %s)" alloc len (dec_of_n (cost_of m))) :: !r));
    if !r = [] then [Ok_ ["child"; kind; !tag]] else !r
  | _ -> raise (Bad "child fields")

let () =
  register "C17auxcbor" "rt" h_rt;
  register "C17auxcbor" "dec" h_dec;
  register "C17auxcbor" "stream" h_stream;
  register "C17auxcbor" "uri" h_uri;
  register "C17auxcbor" "uristruct" h_uristruct;
  register "C04auxcbor" "child" h_child
