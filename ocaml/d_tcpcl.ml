(* driver glue for Model/Tcpcl.v : generators C11tcpcl (kinds xfer, mgr, peer) and C04tcpclmru (kind mru) *)
open Model
open Conv
open Sexp
open Verdict

(* the model recurses over 1 MiB byte lists: a large minor heap keeps the GC from rescanning the deep stack *)
let () = Gc.set { (Gc.get ()) with Gc.minor_heap_size = 16 * 1024 * 1024; Gc.space_overhead = 400 }

let seg_of_s s = match lst s with
  | [f; t; d; c] -> ({ sg_flags = s_n f; sg_tid = s_n t; sg_data = s_bytes d }, s_n c)
  | _ -> raise (Bad "segment")
let show_seg s = Printf.sprintf "(flags %s tid %s len %d)" (dec_of_n s.sg_flags) (dec_of_n s.sg_tid) (List.length s.sg_data)
let end_name = function OtEof -> "eof" | OtErr -> "err" | OtPanic -> "panic" | OtFuel -> "spin"
let n0 = n_of_int 0
let n1 = n_of_int 1
let nlen l = n_of_int (List.length l)
let n_le a b = (N.leb a b)
let n_divides m l = (* m | l, m >= 1 *) (match N.modulo l m with N0 -> true | _ -> false)

let rec same_segs a b = match a, b with
  | [], [] -> true
  | (s, c) :: a, (s', c') :: b -> segment_eqb s s' && c = c' && same_segs a b
  | _ -> false

(* (case n xfer tid m data src | segs end rx finished got bundle) *)
let xfer = function
  | [tid; m; data; src; segs; oend; rx; fin; got; bres] ->
    let tid = s_n tid and m = s_n m and data = s_bytes data in
    let obs = List.map seg_of_s (lst segs) in
    let osegs = List.map fst obs in
    let oend = s_sym oend and fin = s_bool fin and got = s_bytes got in
    let r = ref [] in
    let add v = r := v :: !r in
    (* ---- correspondence: sender *)
    let (msegs, mend) = out_run data m tid in
    if not (same_segs msegs obs && end_name mend = oend) then begin
      let (osg, oe) = out_run_orig (nat_of_int (List.length data + 3)) data m tid in
      let like_orig = same_segs osg obs && end_name oe = oend in
      add (Mismatch (Printf.sprintf "NextSegment sequence: model %d segments end %s, impl %d segments end %s%s"
                       (List.length msegs) (end_name mend) (List.length obs) oend
                       (if like_orig then " (implementation behaves like the unrepaired NextSegment)" else "")))
    end;
    (* ---- correspondence: receiver, fed with the implementation's own segments *)
    let (ist, macks) = in_run (in_init tid) osegs in
    let oacks = List.map (fun a -> match lst a with
        | [Atom "ack"; f; t; l; _] -> Some { ak_flags = s_n f; ak_tid = s_n t; ak_len = s_n l }
        | _ -> None) (lst rx) in
    let rec same_acks a b = match a, b with
      | [], [] -> true
      | None :: a, None :: b -> same_acks a b
      | Some x :: a, Some y :: b -> ack_eqb x y && same_acks a b
      | _ -> false in
    if not (same_acks macks oacks) then add (Mismatch "IncomingTransfer.NextSegment acknowledgements");
    if ist.is_end <> fin then add (Mismatch "IncomingTransfer.IsFinished");
    if ist.is_buf <> got then add (Mismatch "IncomingTransfer buffer");
    (* finished flag after every segment *)
    let rec fins st ss os = match ss, os with
      | s :: ss, o :: os ->
        (match in_next st s, lst o with
         | Some (st', _), [Atom "ack"; _; _; _; f] -> (st'.is_end = s_bool f) && fins st' ss os
         | None, [Atom "err"] -> fins st ss os
         | _ -> false)
      | [], [] -> true
      | _ -> false in
    if not (fins (in_init tid) osegs (lst rx)) then add (Mismatch "IsFinished after a segment");
    (* ---- the property itself, on what the implementation produced (m >= 1, L >= 1) *)
    let l = nlen data in
    let divides = n_divides m l in
    if oend <> "eof" then add (Propfail ("tcpcl.sender." ^ oend, "NextSegment loop ended with " ^ oend));
    if not (chk_sizes m osegs) then add (Propfail ("tcpcl.segment.size", "a segment is empty or larger than the segment MTU"));
    if not (chk_concat data osegs) then add (Propfail ("tcpcl.segment.concat", "concatenated segment data differs from the bundle encoding"));
    if not (chk_tid tid osegs) then add (Propfail ("tcpcl.segment.transfer-id", "segment with a foreign transfer id"));
    if not (chk_start osegs) then add (Propfail ("tcpcl.start-flag", "START is not on exactly the first segment"));
    if not (chk_end osegs) then
      add (Propfail ((if divides then "tcpcl.end-flag.segment-size-divides-length" else "tcpcl.end-flag"),
                     Printf.sprintf "END is not on exactly the last segment (L=%s m=%s, %d segments)" (dec_of_n l) (dec_of_n m) (List.length osegs)));
    if not fin then add (Propfail ("tcpcl.receiver.not-finished", "receiver has not seen the end of the transfer after all segments"))
    else if got <> data then add (Propfail ("tcpcl.receiver.bytes-differ", "receiver accumulated other bytes than were sent"));
    (match lst bres with
     | [Atom "none"] -> ()
     | [Atom "ok"; b] -> if s_bytes b <> data then add (Propfail ("tcpcl.receiver.bundle-differs", "bundle handed up differs from the bundle sent"))
     | _ -> if fin then add (Propfail ("tcpcl.receiver.bundle-differs", "receiver cannot parse the finished transfer")));
    if !r = [] then
      [Ok_ ["xfer"; s_sym src; (if divides then "m-divides-L" else if N.ltb l m then "m>L" else "m-not-dividing");
            (if List.length osegs = 1 then "one-segment" else "multi-segment");
            (if List.length data >= 1000000 then "around-1MiB" else "small")]]
    else !r
  | _ -> raise (Bad "xfer case")

(* ---- TransferManager pairs ---- *)
let sent_of_s s = List.map (fun e -> match lst e with [b; r] -> (atom b, s_sym r) | _ -> raise (Bad "sent")) (lst s)

let mgr = function
  | [ma; mb; tob; toa; delb; dela; errs; dead] ->
    let r = ref [] in
    let add v = r := v :: !r in
    let dir name m sent del =
      let m = s_n m in
      let sent = sent_of_s sent in
      let del = List.sort compare (List.map atom (lst del)) in
      (* model: every transfer is segmented, the receiver sees the segments of all transfers
         (ids 0..), and every Send run against the honest acknowledgements succeeds *)
      let segss = List.mapi (fun i (b, _) -> segments (bytes_of_hexatom b) m (n_of_int i)) sent in
      let mdel = List.sort compare (List.map (fun (_, bs) -> hex_of_bytes bs) (rx_delivered (List.concat segss))) in
      if mdel <> del then add (Mismatch (name ^ ": delivered bundles: model " ^ string_of_int (List.length mdel) ^ " impl " ^ string_of_int (List.length del)));
      (* theorem C11_bundles: every byte string the model receiver hands up parses with Model/Bundle.v dec_bundle,
         completely, as a bundle that serialises to these bytes (the implementation parsed it to hand it up;
         now = 0: no wall-clock lifetime check) *)
      List.iter (fun (_, bs) ->
          match dec_bundle (n_of_int 0) bs with
          | Some (b, []) -> if enc_bundle b <> Some bs then add (Mismatch (name ^ ": a handed-up bundle re-serialises differently in the model"))
          | _ -> add (Mismatch (name ^ ": the model's bundle decoder does not accept, completely, what the receiver hands up")))
        (rx_delivered (List.concat segss));
      List.iteri (fun i (b, res) ->
          let bs = bytes_of_hexatom b in
          let segs = List.nth segss i in
          let evs = List.concat (List.map (fun a -> [SeStep; SeAck a]) (rx_ack_lens segs)) @ [SeStep; SeRecvLen] in
          (match send_run (send_init bs m (n_of_int i)) evs with
           | Some (st, _) when st.ss_result = Some SrOk -> if res <> "ok" then add (Mismatch (name ^ ": Send result: model ok impl " ^ res))
           | _ -> add (Mismatch (name ^ ": model Send does not succeed")));
          (* property: success means delivered *)
          if res = "ok" && not (List.mem b del) then
            add (Propfail ("tcpcl.send.ok-but-not-delivered",
                           Printf.sprintf "%s: Send returned success but the receiver never handed the bundle up (L=%d m=%s)" name (List.length bs) (dec_of_n m)))) sent;
      (* property: exactly the bundles sent, each once *)
      let sent_sorted = List.sort compare (List.map fst sent) in
      let all_ok = List.for_all (fun (_, res) -> res = "ok") sent in
      let rec sub a b = match a, b with   (* a sub-multiset of b, both sorted *)
        | [], _ -> true
        | _, [] -> false
        | x :: a', y :: b' -> if x = y then sub a' b' else if y < x then sub a b' else false in
      if not (sub del sent_sorted) then add (Propfail ("tcpcl.deliver.not-exactly-once", name ^ ": a bundle was handed up twice or was never sent"))
      else if all_ok && del <> sent_sorted then () (* reported above as ok-but-not-delivered *);
      (* the session of a mgr case is healthy (no scripted fault): every concurrent Send must succeed
         and every bundle must be handed up *)
      if not all_ok then
        add (Propfail ("tcpcl.concurrent.send-failed", name ^ ": a Send on a healthy session with concurrent senders returned an error"));
      if not (sub sent_sorted del) then
        add (Propfail ("tcpcl.concurrent.not-delivered", name ^ ": a bundle sent on a healthy session with concurrent senders was never handed up")) in
    dir "A->B" ma tob delb;
    dir "B->A" mb toa dela;
    if s_int errs <> 0 then add (Mismatch "a TransferManager reported an error on a healthy session");
    if s_int dead <> 0 then add (Mismatch "a TransferManager stopped handling messages");
    if !r = [] then
      [Ok_ ["mgr"; Printf.sprintf "senders-%d+%d" (List.length (lst tob)) (List.length (lst toa))]]
    else !r
  | _ -> raise (Bad "mgr case")

(* ---- scripted peer ---- *)
let result_name = function
  | Some SrOk -> "ok" | Some SrRefused -> "refused" | Some SrTimeout -> "timeout" | Some SrStopped -> "stopped"
  | Some SrReadErr -> "readerr" | None -> "blocked"

let rec take k l = if k <= 0 then [] else match l with [] -> [] | x :: l -> x :: take (k - 1) l
let rec is_prefix a b = match a, b with [], _ -> true | x :: a, y :: b -> x = y && is_prefix a b | _ -> false

let peer = function
  | [m; enc; fault; k; result; read; sawend; recvlen; lastack; flags; lens] ->
    let m = s_n m and bs = s_bytes enc and fault = s_sym fault and k = s_int k and result = s_sym result in
    let r = ref [] in
    let add v = r := v :: !r in
    let segs = segments bs m n0 in
    let n = List.length segs in
    let acks = rx_ack_lens segs in
    let acked j = List.concat (List.map (fun a -> [SeStep; SeAck a]) (take j acks)) in
    let run evs = match send_run (send_init bs m n0) evs with
      | Some (st, _) -> result_name st.ss_result
      | None -> "rejected" in
    let rec rep x j = if j <= 0 then [] else x :: rep x (j - 1) in
    let allowed = match fault with
      | "none" -> [run (acked n @ [SeStep; SeRecvLen])]
      | "refuse" -> [run (acked k @ [SeStep; SeRefuse])]
      | "mute" -> [run (acked k @ rep SeStep (n - k + 1) @ [SeRecvLen; SeTimeout])]
      | "stopread" -> [run (acked k @ [SeStep; SeTimeout])]
      | "close" ->
        run (acked k @ [SeStep; SeClose; SeStep; SeRecvErr])
        :: (if k + 1 = n then [run (acked k @ [SeStep; SeStep; SeClose; SeRecvLen; SeTimeout])] else [])
      | _ -> raise (Bad "fault") in
    if not (List.mem result allowed) then
      add (Mismatch (Printf.sprintf "Send result under peer script %s after %d: model %s impl %s" fault k (String.concat "|" allowed) result));
    (* what the peer saw must be (a prefix of) the model's segment sequence *)
    let mfl = List.map (fun s -> dec_of_n s.sg_flags) segs and mln = List.map (fun s -> string_of_int (List.length s.sg_data)) segs in
    let ofl = List.map atom (lst flags) and oln = List.map atom (lst lens) in
    if fault = "none" then begin
      if ofl <> mfl || oln <> mln then add (Mismatch "segments seen by the peer differ from the model's");
      if s_int read <> n then add (Mismatch "number of segments read by the peer")
    end else if not (is_prefix ofl mfl && is_prefix oln mln) then add (Mismatch "segments seen by the peer are no prefix of the model's");
    (* the property: success only if the receiver obtained the complete transfer including its end *)
    let l = nlen bs in
    if result = "ok" then begin
      if not (s_bool sawend) then
        add (Propfail ("tcpcl.send.ok-without-end",
                       Printf.sprintf "Send returned success but no segment carried END (L=%s m=%s)" (dec_of_n l) (dec_of_n m)))
      else if s_n recvlen <> l || s_n lastack <> l then
        add (Propfail ("tcpcl.send.ok-incomplete", "Send returned success without the full length acknowledged"))
    end;
    if result = "hang" then add (Propfail ("tcpcl.send.hang", "Send returned neither success nor an error"));
    if fault <> "none" && result = "ok" then add (Propfail ("tcpcl.send.ok-despite-" ^ fault, "Send returned success although the peer failed"));
    if !r = [] then [Ok_ ["peer"; "peer-" ^ fault; "send-" ^ result; (if n_divides m l then "m-divides-L" else "m-not-dividing")]] else !r
  | _ -> raise (Bad "peer case")

(* ---- C04: peer-declared segment MRU ---- *)
let mru = function
  | [m; l; cls; calls] ->
    let m = s_n m and l = s_int l and cls = s_sym cls in
    let data = List.init l (fun i -> byte_tbl.((i * 7 + 1) land 255)) in
    let r = ref [] in
    let add v = r := v :: !r in
    let (msegs, mend) = out_run data m (n_of_int 3) in
    let obs = List.map (fun c -> match lst c with [f; ln; cp] -> (s_n f, s_int ln, s_n cp) | _ -> raise (Bad "call")) (lst calls) in
    let mobs = List.map (fun (s, a) -> (s.sg_flags, List.length s.sg_data, a)) msegs in
    if end_name mend <> cls || mobs <> obs then
      add (Mismatch (Printf.sprintf "NextSegment(mru=%s) on %d bytes: model %s/%d calls, impl %s/%d calls" (dec_of_n m) l (end_name mend) (List.length mobs) cls (List.length obs)));
    (* the property (C04 sender clause): no panic, progress, bounded buffer *)
    (match cls with
     | "panic" -> add (Propfail ("tcpcl.mru.make-panic", "NextSegment panics for peer MRU " ^ dec_of_n m))
     | "spin" -> add (Propfail ("tcpcl.mru.no-progress", "NextSegment never finishes for peer MRU " ^ dec_of_n m))
     | "timeout" -> add (Propfail ("tcpcl.mru.hang", "NextSegment hangs for peer MRU " ^ dec_of_n m))
     | "oom" | "crash" -> add (Propfail ("tcpcl.mru.alloc-unbounded", "process dies allocating the segment buffer for peer MRU " ^ dec_of_n m))
     | _ -> ());
    List.iter (fun (_, ln, cp) ->
        if ln = 0 then add (Propfail ("tcpcl.mru.no-progress", "NextSegment returned an empty segment"));
        if not (n_le cp (N.add tc_max_segment (n_of_int ln))) then
          add (Propfail ("tcpcl.mru.alloc-unbounded", "segment buffer of " ^ dec_of_n cp ^ " bytes for " ^ string_of_int ln ^ " bytes sent"))) obs;
    if List.length obs > l then add (Propfail ("tcpcl.mru.no-progress", "more segments than bytes"));
    if !r = [] then
      [Ok_ ["mru"; (if m = N0 then "mru-0" else if N.leb tc_int_limit m then "mru>=2^63" else if N.ltb tc_max_segment m then "mru>cap" else "mru<=cap"); "end-" ^ cls]]
    else !r
  | _ -> raise (Bad "mru case")

let () =
  register "C11tcpcl" "xfer" xfer;
  register "C11tcpcl" "mgr" mgr;
  register "C11tcpcl" "peer" peer;
  register "C04tcpclmru" "mru" mru
