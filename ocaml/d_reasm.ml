(* C10 - reassembly: driver glue.  Replays the cases of harness/reasm.go through the extracted model
   (the rs_ functions of Model) and evaluates the property's own checker - an interval bitmap, independent of the
   model's scan - on what the implementation produced. *)
open Model
open Conv
open Sexp
open Verdict

let blocks_of_s s = List.map (fun b -> match lst b with
    | [t; r] -> (s_n t, s_bool r)
    | _ -> raise (Bad "block")) (lst s)

let frag_of_s s = match lst s with
  | [o; t; d; i; b] ->
    { fr_off = s_n o; fr_total = s_n t; fr_data = s_bytes d; fr_isfrag = s_bool i; fr_blocks = blocks_of_s b }
  | _ -> raise (Bad "frag")

let show_blocks b = "(" ^ String.concat " " (List.map (fun (t, r) -> dec_of_n t ^ (if r then "r" else "")) b) ^ ")"
let show_frag f =
  Printf.sprintf "[%s,+%d/%s%s %s]" (dec_of_n f.fr_off) (List.length f.fr_data) (dec_of_n f.fr_total)
    (if f.fr_isfrag then "" else " whole") (show_blocks f.fr_blocks)
let show_frags fs = String.concat " " (List.map show_frag fs)

let err_name = function RsEmpty -> "empty" | RsNotFragment -> "notfrag" | RsGap -> "gap" | RsTotal -> "total"
let show_outcome = function
  | RsErr e -> "err " ^ err_name e
  | RsOk (d, b) -> "ok " ^ hex_of_bytes d ^ " " ^ show_blocks b
  | RsPanic -> "panic"

(* observed outcome *)
type obs = OOk of n list * (n * bool) list * bool | OErr of string | OPanic of string
let obs_of_s s = match lst s with
  | [Atom "ok"; d; b; w] -> OOk (s_bytes d, blocks_of_s b, s_bool w)
  | [Atom "err"; c] -> OErr (atom c)
  | [Atom "panic"; m] -> OPanic (String.concat "" (List.map (fun x -> String.make 1 (Char.chr (int_of_n x))) (s_bytes m)))
  | _ -> raise (Bad "outcome")
let show_obs = function
  | OOk (d, b, w) -> "ok " ^ hex_of_bytes d ^ " " ^ show_blocks b ^ (if w then "" else " wire-differs")
  | OErr c -> "err " ^ c
  | OPanic m -> "panic " ^ m

let same_outcome (m : rs_outcome) (o : obs) = match m, o with
  | RsOk (d, b), OOk (d', b', _) -> d = d' && b = b'
  | RsErr e, OErr c -> err_name e = c
  | RsPanic, OPanic _ -> true
  | _ -> false

(* ---- the property's own checker: plain OCaml ints and a bitmap ---- *)
let ilen l = List.length l
let sub l a n = List.filteri (fun i _ -> i >= a && i < a + n) l

(* is f a fragment of payload p / blocks bl ? *)
let consistent p bl f =
  let off = int_of_n f.fr_off and len = ilen f.fr_data and tot = ilen p in
  f.fr_isfrag && int_of_n f.fr_total = tot && off + len <= tot && f.fr_data = sub p off len
  && f.fr_blocks = (if off = 0 then bl else List.filter snd bl)

let covers p fs =
  fs <> [] &&
  (let bm = Array.make (ilen p) false in
   List.iter (fun f ->
       let off = int_of_n f.fr_off in
       List.iteri (fun i _ -> if off + i < Array.length bm then bm.(off + i) <- true) f.fr_data) fs;
   Array.for_all (fun x -> x) bm)

let features fs =
  let iv = List.map (fun f -> (int_of_n f.fr_off, int_of_n f.fr_off + ilen f.fr_data)) fs in
  let rec pairs = function [] -> [] | x :: r -> List.map (fun y -> (x, y)) r @ pairs r in
  let ps = pairs iv in
  let t = ref [] in
  if List.exists (fun ((a, b), (c, d)) -> a = c && b = d) ps then t := "dup" :: !t;
  if List.exists (fun ((a, b), (c, d)) -> (a, b) <> (c, d) && ((a <= c && d <= b) || (c <= a && b <= d))) ps then t := "contained" :: !t;
  if List.exists (fun ((a, b), (c, d)) -> a < c && c < b && b < d || c < a && a < d && d < b) ps then t := "overlap" :: !t;
  if List.exists (fun ((a, _), (c, _)) -> a = c) ps then t := "same-offset" :: !t;
  !t

let size_tag n = if n = 0 then "n0" else if n <= 2 then "n1-2" else if n <= 4 then "n3-4" else if n <= 8 then "n5-8" else "n9+"

(* (case n reasm tag payload blocks frags isre perm outcome) *)
let reasm = function
  | [tag; p; bl; fs; isre; perm; out] ->
    let tag = atom tag in
    let p = s_bytes p and bl = blocks_of_s bl in
    let fs = List.map frag_of_s (lst fs) in
    let perm = List.map s_int (lst perm) in
    let out = obs_of_s out in
    let isre = match lst isre with [Atom "yes"] -> `Yes | [Atom "no"] -> `No | _ -> `Panic in
    let r = ref [] in
    let add v = r := v :: !r in
    let desc () = Printf.sprintf "payload %d bytes, fragments %s" (ilen p) (show_frags fs) in
    (* --- correspondence --- *)
    let n = ilen fs in
    let perm_ok = ilen perm = n && List.sort compare perm = List.init n (fun i -> i) in
    let arr = Array.of_list fs in
    if not perm_ok then add (Mismatch "recorded sort order is not a permutation of the input")
    else begin
      let s = List.map (fun i -> arr.(i)) perm in
      if not (rs_sorted_b s) then add (Mismatch ("implementation's order is not sorted by offset: " ^ show_frags s));
      let m = rs_reassemble_sorted s in
      if not (same_outcome m out) then
        add (Mismatch (Printf.sprintf "ReassembleFragments: model %s, impl %s; %s" (show_outcome m) (show_obs out) (desc ())));
      let mi = rs_is_reassemblable_sorted s in
      (match isre with
       | `Yes -> if not mi then add (Mismatch ("IsBundleReassemblable: model false, impl true; " ^ desc ()))
       | `No -> if mi then add (Mismatch ("IsBundleReassemblable: model true, impl false; " ^ desc ()))
       | `Panic -> add (Mismatch "IsBundleReassemblable panicked"));
      (* the model's own (stable) sort must give the same outcome: order among equal offsets is irrelevant *)
      if List.for_all (consistent p bl) fs && rs_reassemble fs <> m then
        add (Mismatch ("model: outcome depends on the order among equal offsets; " ^ desc ()))
    end;
    (* --- property --- *)
    (match out with OPanic m -> add (Propfail ("reasm.panic", "ReassembleFragments panics: " ^ m ^ "; " ^ desc ())) | _ -> ());
    if isre = `Panic then add (Propfail ("reasm.panic", "IsBundleReassemblable panics; " ^ desc ()));
    let ptags =
      if List.exists (fun f -> not f.fr_isfrag) fs then begin
        (match out with OOk _ -> add (Propfail ("reasm.nonfragment.accepted", desc ())) | _ -> ());
        ["nonfragment-input"]
      end else if not (List.for_all (consistent p bl) fs) then begin
        if String.length tag >= 4 && String.sub tag 0 4 = "frag" then
          add (Propfail ("reasm.refragment.offset",
                         "a fragment produced by Bundle.Fragment is not the slice of the original payload at its offset / has another total; " ^ desc ()))
        else add (Mismatch ("harness: synthetic fragment is inconsistent; " ^ desc ()));
        ["inconsistent-input"]
      end else begin
        let cov = covers p fs in
        (match out with
         | OOk (d, b, w) ->
           if not cov then add (Propfail ("reasm.noncover.accepted", "ReassembleFragments succeeds on a non-covering set; " ^ desc ()));
           if d <> p then add (Propfail ("reasm.payload.differs", "reassembled payload " ^ hex_of_bytes d ^ " differs from the original " ^ hex_of_bytes p ^ "; " ^ desc ()))
           else if b <> bl || not w then add (Propfail ("reasm.bundle.differs", "reassembled bundle's blocks / serialisation differ from the original; " ^ desc ()))
         | OErr c ->
           if cov then add (Propfail ("reasm.cover.rejected", "ReassembleFragments rejects a covering set (" ^ c ^ "); " ^ desc ()))
         | OPanic _ -> ());
        (match isre with
         | `Yes -> if not cov then add (Propfail ("reasm.noncover.accepted", "IsBundleReassemblable accepts a non-covering set; " ^ desc ()))
         | `No -> if cov then add (Propfail ("reasm.cover.rejected", "IsBundleReassemblable rejects a covering set; " ^ desc ()))
         | `Panic -> ());
        [if cov then "cover" else "noncover"] @ features fs
      end in
    if !r = [] then
      [Ok_ (["reasm"; tag; size_tag n; (match out with OOk _ -> "ok" | OErr c -> "err-" ^ c | OPanic _ -> "panic")] @ ptags)]
    else List.rev !r
  | _ -> raise (Bad "reasm case")

(* (case n store tag payload blocks frags pusherrs parts complete load) *)
let store = function
  | [tag; p; bl; fs; perr; Atom "noitem"] ->
    if lst fs = [] then [Ok_ ["store"; "empty"]] else [Mismatch "store: no item after pushes"]
  | [tag; p; bl; fs; perr; parts; complete; load] ->
    let tag = atom tag in
    let p = s_bytes p and bl = blocks_of_s bl in
    let fs = List.map frag_of_s (lst fs) in
    let parts = List.map (fun x -> match lst x with [o; t; l] -> (s_int o, s_int t, int_of_string (atom l)) | _ -> raise (Bad "part")) (lst parts) in
    let load = obs_of_s load in
    let complete = match lst complete with [Atom "yes"] -> `Yes | [Atom "no"] -> `No | _ -> `Panic in
    let r = ref [] in
    let add v = r := v :: !r in
    let desc () = Printf.sprintf "payload %d bytes, pushed %s, kept parts %s" (ilen p) (show_frags fs)
        (String.concat " " (List.map (fun (o, t, l) -> Printf.sprintf "[%d,+%d/%d]" o l t) parts)) in
    if s_int perr <> 0 then add (Mismatch ("store: Push failed; " ^ desc ()));
    (* --- correspondence --- *)
    let mparts = rs_store_push_all fs in
    let mp = List.map (fun f -> (int_of_n f.fr_off, int_of_n f.fr_total, ilen f.fr_data)) mparts in
    if mp <> parts then add (Mismatch ("store: part list differs from the model's; " ^ desc ()));
    let mc = rs_store_is_complete mparts in
    (match complete with
     | `Yes -> if not mc then add (Mismatch ("IsComplete: model false, impl true; " ^ desc ()))
     | `No -> if mc then add (Mismatch ("IsComplete: model true, impl false; " ^ desc ()))
     | `Panic -> add (Mismatch "IsComplete panicked"));
    let ml = rs_store_load mparts in
    if not (same_outcome ml load) then
      add (Mismatch (Printf.sprintf "Load: model %s, impl %s; %s" (show_outcome ml) (show_obs load) (desc ())));
    (* --- property --- *)
    (match load with OPanic m -> add (Propfail ("reasm.panic", "BundleItem.Load panics: " ^ m ^ "; " ^ desc ())) | _ -> ());
    if complete = `Panic then add (Propfail ("reasm.panic", "BundleItem.IsComplete panics; " ^ desc ()));
    let ptags =
      if not (List.for_all (consistent p bl) fs) then begin
        add (Mismatch ("harness: pushed fragment is inconsistent; " ^ desc ())); ["inconsistent-input"]
      end else begin
        let cov = covers p fs in
        (* the specific class: a pushed fragment longer than the kept part with the same (offset,total),
           and the kept parts alone do not cover *)
        let kept_cover =
          parts <> [] &&
          (let bm = Array.make (ilen p) false in
           List.iter (fun (o, _, l) -> for i = o to o + l - 1 do if i >= 0 && i < Array.length bm then bm.(i) <- true done) parts;
           Array.for_all (fun x -> x) bm) in
        let longer_dropped =
          List.exists (fun f -> List.exists (fun (o, t, l) -> o = int_of_n f.fr_off && t = int_of_n f.fr_total && l < ilen f.fr_data) parts) fs in
        let rejected what =
          if longer_dropped && not kept_cover then
            add (Propfail ("reasm.store.longer-duplicate-dropped",
                           what ^ ": Store.Push dropped a fragment that is longer than the stored part with the same (offset,total); " ^ desc ()))
          else add (Propfail ("reasm.store.cover.rejected", what ^ " on a covering set of pushed fragments; " ^ desc ())) in
        (match complete with
         | `Yes -> if not cov then add (Propfail ("reasm.store.noncover.accepted", "IsComplete is true for a non-covering set; " ^ desc ()))
         | `No -> if cov then rejected "IsComplete is false"
         | `Panic -> ());
        (match load with
         | OOk (d, b, w) ->
           if not cov then add (Propfail ("reasm.store.noncover.accepted", "Load succeeds on a non-covering set; " ^ desc ()));
           if d <> p then add (Propfail ("reasm.payload.differs", "loaded payload differs from the original; " ^ desc ()))
           else if b <> bl || not w then add (Propfail ("reasm.bundle.differs", "loaded bundle's blocks / serialisation differ from the original; " ^ desc ()))
         | OErr c -> if cov && complete <> `No then rejected ("Load fails (" ^ c ^ ")")
         | OPanic _ -> ());
        [if cov then "cover" else "noncover"] @ features fs @ (if longer_dropped then ["longer-dropped"] else [])
      end in
    if !r = [] then
      [Ok_ (["store"; tag; size_tag (ilen fs); "parts-" ^ size_tag (ilen parts);
             (match load with OOk _ -> "ok" | OErr c -> "err-" ^ c | OPanic _ -> "panic")] @ ptags)]
    else List.rev !r
  | _ -> raise (Bad "store case")

(* (case n refrag payload blocks parent mtu (err)|(panic)|(ok children)) *)
let refrag = function
  | [p; bl; parent; mtu; res] ->
    let p = s_bytes p in
    let _ = blocks_of_s bl in
    let parent = frag_of_s parent in
    (match lst res with
     | [Atom "err"] -> [Ok_ ["refrag"; "err"; (if parent.fr_isfrag then "level2" else "level1")]]
     | [Atom "panic"] -> [Propfail ("reasm.refragment.panic", "Bundle.Fragment panics on " ^ show_frag parent ^ " mtu " ^ atom mtu)]
     | [Atom "ok"; cs] ->
       let cs = List.map frag_of_s (lst cs) in
       let r = ref [] in
       let add v = r := v :: !r in
       let desc () = Printf.sprintf "parent %s mtu %s children %s" (show_frag parent) (atom mtu) (show_frags cs) in
       (* correspondence: the piece sizes are the oracle (decided by the codec's size arithmetic) *)
       let parts = List.map (fun c -> n_of_int (ilen c.fr_data)) cs in
       let m = rs_refragment parent parts in
       if not (ilen m = ilen cs && List.for_all2 rs_frag_eqb m cs) then
         add (Mismatch ("Fragment of a fragment: model " ^ show_frags m ^ "; " ^ desc ()));
       (* property: offsets relative to the original payload, the original total, pieces cover the parent *)
       let single = (match cs with [c] -> rs_frag_eqb c parent | _ -> false) in
       if not single then begin
         let base = if parent.fr_isfrag then int_of_n parent.fr_off else 0 in
         let tot = if parent.fr_isfrag then int_of_n parent.fr_total else ilen parent.fr_data in
         let i = ref 0 in
         List.iter (fun c ->
             let len = ilen c.fr_data in
             if not (c.fr_isfrag && int_of_n c.fr_off = base + !i && int_of_n c.fr_total = tot
                     && c.fr_data = sub p (base + !i) len && len > 0) then
               add (Propfail ("reasm.refragment.offset",
                              Printf.sprintf "piece %s should be [%d,+%d/%d] of the original payload; %s" (show_frag c) (base + !i) len tot (desc ())))
             else if c.fr_blocks <> (if !i = 0 then parent.fr_blocks else List.filter snd parent.fr_blocks) then
               add (Propfail ("reasm.refragment.blocks", "piece " ^ show_frag c ^ " carries the wrong extension blocks; " ^ desc ()));
             i := !i + len) cs;
         if !i <> ilen parent.fr_data && ilen parent.fr_data > 0 then
           add (Propfail ("reasm.refragment.cover", "pieces do not add up to the parent's payload; " ^ desc ()))
       end;
       if !r = [] then
         [Ok_ ["refrag"; (if parent.fr_isfrag then "level2" else "level1"); (if single then "single" else "pieces-" ^ size_tag (ilen cs))]]
       else List.rev !r
     | _ -> raise (Bad "refrag result"))
  | _ -> raise (Bad "refrag case")

let () =
  register "C10reasm" "reasm" reasm;
  register "C10reasm" "refrag" refrag;
  register "C10store" "store" store
