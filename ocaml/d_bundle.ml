open Model
open Conv
open Sexp
open Verdict

(* ---- model structure -> canonical dump (same shape as harness/bundle.go dumpBundle) ---- *)
let bytes_str (l : n list) : string = String.init (List.length l) (fun i -> Char.chr (int_of_n (List.nth l i) land 255))
let str_of_bytes (l : n list) : string =
  let b = Buffer.create 16 in List.iter (fun x -> Buffer.add_char b (Char.chr (int_of_n x land 255))) l; Buffer.contents b
let eid_hex e = hex_of_bytes (eid_print e)

let sorted_pairs (l : (eid * n) list) : string =
  let l' = List.map (fun (k, v) -> (str_of_bytes (eid_print k), (k, v))) l in
  let l' = List.sort (fun (a, _) (b, _) -> compare a b) l' in
  "(" ^ String.concat " " (List.map (fun (_, (k, v)) -> "(" ^ eid_hex k ^ " " ^ dec_of_n v ^ ")") l') ^ ")"

let dump_ext = function
  | XPayload d -> "(raw " ^ hex_of_bytes d ^ ")"
  | XGeneric (_, d) -> "(raw " ^ hex_of_bytes d ^ ")"
  | XPrev e -> "(eid " ^ eid_hex e ^ ")"
  | XAge k -> "(u " ^ dec_of_n k ^ ")"
  | XSpray k -> "(u " ^ dec_of_n k ^ ")"
  | XHop (l, c) -> "(hop " ^ dec_of_n l ^ " " ^ dec_of_n c ^ ")"
  | XDtlsr (id, ts, ps) -> "(dtlsr " ^ eid_hex id ^ " " ^ dec_of_n ts ^ " " ^ sorted_pairs ps ^ ")"
  | XProphet ps -> "(prophet " ^ sorted_pairs ps ^ ")"
  | XSig (pk, sg) -> "(sig " ^ hex_of_bytes pk ^ " " ^ hex_of_bytes sg ^ ")"

let dump_blocks (bl : cblock list) : string =
  "(" ^ String.concat " " (List.map (fun c ->
      Printf.sprintf "(%s %s %s %s %s)" (dec_of_n c.c_num) (dec_of_n (c_type c)) (dec_of_n c.c_flags) (dec_of_n c.c_crc) (dump_ext c.c_val)) bl) ^ ")"

let dump_bundle (b : bundle) : string =
  let p = b.b_pri in
  Printf.sprintf "(b (p %s %s %s %s %s %s %s %s %s %s) %s)"
    (dec_of_n p.p_flags) (dec_of_n p.p_crc) (eid_hex p.p_dst) (eid_hex p.p_src) (eid_hex p.p_rpt)
    (dec_of_n p.p_time) (dec_of_n p.p_seq) (dec_of_n p.p_life) (dec_of_n p.p_off) (dec_of_n p.p_total)
    (dump_blocks b.b_blocks)

(* ---- Go dump -> model structure (lenient: whatever Go holds, even if invalid) ---- *)
let eid_of_uri (s : string) : eid =
  let bytes_of s = List.init (String.length s) (fun i -> byte_tbl.(Char.code s.[i])) in
  if s = "dtn:none" then DtnNone
  else if String.length s >= 6 && String.sub s 0 6 = "dtn://" then begin
    let rest = String.sub s 6 (String.length s - 6) in
    match String.index_opt rest '/' with
    | Some i -> Dtn (bytes_of (String.sub rest 0 i), bytes_of (String.sub rest (i + 1) (String.length rest - i - 1)))
    | None -> Dtn (bytes_of rest, [])
  end
  else if String.length s >= 4 && String.sub s 0 4 = "ipn:" then begin
    let rest = String.sub s 4 (String.length s - 4) in
    match String.index_opt rest '.' with
    | Some i -> Ipn (n_of_dec (String.sub rest 0 i), n_of_dec (String.sub rest (i + 1) (String.length rest - i - 1)))
    | None -> raise (Bad ("ipn uri: " ^ s))
  end
  else raise (Bad ("uri: " ^ s))

let s_eid s = eid_of_uri (str_of_bytes (s_bytes s))

let pairs_of_s s = List.map (fun e -> match lst e with [k; v] -> (s_eid k, s_n v) | _ -> raise (Bad "pair")) (lst s)

let ext_of_s (tc : n) s : ext =
  match lst s with
  | [Atom "raw"; d] -> if int_of_n tc = 1 then XPayload (s_bytes d) else XGeneric (tc, s_bytes d)
  | [Atom "eid"; e] -> XPrev (s_eid e)
  | [Atom "u"; k] -> if int_of_n tc = 7 then XAge (s_n k) else XSpray (s_n k)
  | [Atom "hop"; l; c] -> XHop (s_n l, s_n c)
  | [Atom "dtlsr"; id; ts; ps] -> XDtlsr (s_eid id, s_n ts, pairs_of_s ps)
  | [Atom "prophet"; ps] -> XProphet (pairs_of_s ps)
  | [Atom "sig"; pk; sg] -> XSig (s_bytes pk, s_bytes sg)
  | _ -> raise (Bad "ext dump")

let bundle_of_dump s : bundle =
  match lst s with
  | [Atom "b"; p; bl] ->
    (match lst p with
     | [Atom "p"; fl; crc; dst; src; rpt; tm; sq; life; off; tot] ->
       let pri = { p_flags = s_n fl; p_crc = s_n crc; p_dst = s_eid dst; p_src = s_eid src; p_rpt = s_eid rpt;
                   p_time = s_n tm; p_seq = s_n sq; p_life = s_n life; p_off = s_n off; p_total = s_n tot } in
       let blocks = List.map (fun c -> match lst c with
           | [num; tc; fl; crc; v] -> { c_num = s_n num; c_flags = s_n fl; c_crc = s_n crc; c_val = ext_of_s (s_n tc) v }
           | _ -> raise (Bad "block dump")) (lst bl) in
       { b_pri = pri; b_blocks = blocks }
     | _ -> raise (Bad "primary dump"))
  | _ -> raise (Bad "bundle dump")

let has_multi_map (b : bundle) =
  List.exists (fun c -> match c.c_val with
      | XDtlsr (_, _, ps) -> List.length ps >= 2 | XProphet ps -> List.length ps >= 2 | _ -> false) b.b_blocks

let blocks_part s = match lst s with [Atom "b"; _; bl] -> Sexp.to_string bl | _ -> "?"

(* the property checks (C01 second sentence, C02 acceptance) on the implementation's own output *)
let accepted_checks (now : n) (dump : Sexp.t) (id : string) (re : Sexp.t) : verdict list =
  let r = ref [] in
  let b = bundle_of_dump dump in
  if not (check_valid now b) then r := Propfail ("wf.accepted-illformed", "parser accepted a bundle violating a structural rule") :: !r;
  (match List.rev b.b_blocks with
   | c :: _ when int_of_n (c_type c) = 1 -> ()
   | _ -> r := Propfail ("codec.payload-not-last", "accepted bundle's last block is not the payload") :: !r);
  (match lst re with
   | [Atom "err"] -> r := Propfail ("codec.reserialise.fails", "accepted bundle cannot be serialised again") :: !r
   | [Atom "ok"; bytes1; second] ->
     (match lst second with
      | [Atom "err"] -> r := Propfail ("codec.reparse.rejected", "re-serialisation of an accepted bundle is rejected") :: !r
      | [Atom "ok"; dump2; id2; re2] ->
        if str_of_bytes (s_bytes id2) <> id then r := Propfail ("codec.reparse.id-differs", "bundle ID changed by re-serialisation") :: !r;
        if blocks_part dump2 <> blocks_part dump then r := Propfail ("codec.reparse.blocks-differ", "blocks changed by re-serialisation") :: !r;
        (match lst re2 with
         | [Atom "ok"; bytes2] ->
           if not (has_multi_map b) && atom bytes2 <> atom bytes1 then
             r := Propfail ("codec.reencode.not-idempotent", "second serialisation differs from the first") :: !r
         | _ -> r := Propfail ("codec.reserialise.fails", "second serialisation fails") :: !r)
      | _ -> raise (Bad "second parse"))
   | _ -> raise (Bad "reenc"));
  !r

let parse_case kind = function
  | now :: bs :: obs :: extra ->
    let now = s_n now in
    let bytes = s_bytes bs in
    let m = dec_bundle now bytes in
    let r = ref [] in
    let tags = ref [kind] in
    (match lst obs, m with
     | [Atom "panic"; _], _ -> r := Propfail ("codec.parser.panic", "ParseBundle panicked") :: !r
     | [Atom "err"], None -> tags := "reject" :: !tags
     | [Atom "err"], Some _ ->
       (* guard band around the expiry instant: the verdict must be the same two minutes later *)
       if dec_bundle (N.add now (n_of_int 120000)) bytes <> None then r := Mismatch "model accepts, implementation rejects" :: !r
       else tags := "near-expiry-skipped" :: !tags
     | (Atom "ok" :: _), None ->
       if dec_bundle (N.sub now (n_of_int 120000)) bytes = None then r := Mismatch "implementation accepts, model rejects" :: !r
       else tags := "near-expiry-skipped" :: !tags
     | [Atom "ok"; dump; id; consumed; re], Some (b, rest) ->
       tags := "accept" :: !tags;
       let md = dump_bundle b in
       if md <> Sexp.to_string dump then r := Mismatch ("structure differs: model " ^ md) :: !r;
       let idm = str_of_bytes (id_str b) in
       let idg = str_of_bytes (s_bytes id) in
       if idm <> idg then r := Mismatch ("ID string: model " ^ idm ^ " impl " ^ idg) :: !r;
       let mc = List.length bytes - List.length rest in
       if mc <> s_int consumed && rest <> [] then r := Mismatch (Printf.sprintf "consumed: model %d impl %d" mc (s_int consumed)) :: !r;
       (match enc_bundle b, lst re with
        | None, [Atom "err"] -> tags := "reenc-fails" :: !tags
        | Some e, (Atom "ok" :: bytes1 :: _) ->
          if not (has_multi_map b) && hex_of_bytes e <> atom bytes1 then r := Mismatch "re-encoded bytes differ" :: !r
        | None, _ -> r := Mismatch "model cannot re-encode, implementation can" :: !r
        | Some _, _ -> r := Mismatch "model re-encodes, implementation cannot" :: !r);
       List.iter (fun c -> tags := ("t" ^ dec_of_n (c_type c)) :: !tags) b.b_blocks
     | _ -> raise (Bad "obs"));
    (* property checks on the implementation's output alone *)
    (match lst obs with
     | [Atom "ok"; dump; id; _; re] -> r := accepted_checks now dump (str_of_bytes (s_bytes id)) re @ !r
     | _ -> ());
    (* first sentence of C01: a valid bundle's own encoding parses to an equal bundle *)
    (match extra, lst obs with
     | [orig; valid], o when kind = "valid" ->
       if s_bool valid then begin
         match o with
         | [Atom "ok"; dump; _; _; _] ->
           if Sexp.to_string dump <> Sexp.to_string orig then r := Propfail ("codec.roundtrip.differs", "parse (serialise b) differs from b") :: !r
         | _ -> r := Propfail ("codec.roundtrip.rejected", "serialisation of a valid bundle is rejected") :: !r
       end
     | _ -> ());
    if !r = [] then [Ok_ !tags] else !r
  | _ -> raise (Bad "parse case")

(* C02rules: the rule name says what the property demands: "ok.*" must be accepted, anything else
   (exactly one rule violated, CRCs correct) must be rejected *)
let rule_case fields =
  match List.rev fields with
  | name :: rest ->
    let name = s_sym name in
    let base = parse_case "rule" (List.rev rest) in
    let obs = List.nth fields 2 in
    let accepted = (match lst obs with Atom "ok" :: _ -> true | _ -> false) in
    let want = String.length name >= 3 && String.sub name 0 3 = "ok." in
    let extra =
      if accepted && not want then [Propfail ("wf.rule." ^ name, "encoding violating this rule is accepted")]
      else if (not accepted) && want then [Propfail ("wf.rule." ^ name, "admissible encoding is rejected")]
      else [] in
    let base = List.map (function Ok_ t -> Ok_ (name :: t) | v -> v) base in
    (* drop the generic accepted-illformed duplicate when the named rule already reports *)
    base @ extra
  | [] -> raise (Bad "rule case")

(* C02produce: whatever the implementation itself produced must be accepted by the real parser and by
   the model's decoder (proved sound for the structural rules) *)
let produced_case fields =
  match fields with
  | [now; bs; obs; origin; _recipe] ->
    let origin = s_sym origin in
    let key = "wf.produced." ^ origin in
    (match lst obs with
     | Atom "unserialisable" :: _ -> [Propfail (key, "produced bundle cannot be serialised")]
     | [Atom "panic"; _] when s_bytes bs = [] -> [Propfail (key, "producer panicked")]
     | _ ->
       let base = parse_case "produced" [now; bs; obs] in
       let accepted = (match lst obs with Atom "ok" :: _ -> true | _ -> false) in
       let m_ok = dec_bundle (s_n now) (s_bytes bs) <> None in
       let extra =
         if not accepted then [Propfail (key, "produced bundle is rejected by the parser")]
         else if not m_ok then [Propfail (key, "produced bundle violates a structural rule (model decoder rejects)")]
         else [] in
       let base = List.map (function Ok_ t -> Ok_ (origin :: t) | v -> v) base in
       (* a rejection agreed on by model and implementation is not a correspondence mismatch *)
       base @ extra)
  | _ -> raise (Bad "produced case")

let () =
  register "C02produce" "produced" produced_case;
  register "C02produce" "produce-dist" (fun _ -> [Ok_ ["dist"]]);
  register "C02rules" "rule" rule_case;
  register "C01parse" "valid" (parse_case "valid");
  register "C01parse" "mutant" (parse_case "mutant");
  register "C01parse" "garbage" (parse_case "garbage")
