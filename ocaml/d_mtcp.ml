(* C12 (MTCP part): one connection per case.
   Correspondence: every conn.Write of every Send against mtcp_send (chunks, error, PeerDisappeared),
   the server's output against mtcp_server_opaque run on the bytes that went over the connection.
   Property checker (on the implementation's observables only): what the server hands up is the sent
   sequence (a prefix of it when a write failed), every Send reported successful was handed up, a Send
   with a failed write returns an error and reports the peer as gone. *)
open Model
open Conv
open Sexp
open Verdict

let rec is_prefix a b = match a, b with
  | [], _ -> true
  | x :: a, y :: b -> x = y && is_prefix a b
  | _ :: _, [] -> false

let probe = [n_of_int 64]

let conn = function
  | [label; bl; obs; wl; rl; meta] ->
    let label = s_sym label in
    let bundles = Array.of_list (List.map s_bytes (lst bl)) in
    let transport_failed = ref false in
    let log = List.map (fun w -> match lst w with
        | [op; data; fail] ->
          if s_int fail = 2 then transport_failed := true;
          (s_int op, s_bytes data, s_int fail <> 0)
        | _ -> raise (Bad "write entry")) (lst wl) in
    let received = List.map (fun x -> match x with
        | Atom a when String.length a > 0 && a.[0] = 'x' -> s_bytes x
        | _ -> bundles.(s_int x)) (lst rl) in
    let (total_gone, appeared, cli_other, srv_other, timeouts, ticks, tick_seen, tick_break, tick_gone) =
      match lst meta with
      | [a; b; c; d; e; f; g; h; i] -> (s_int a, s_int b, s_int c, s_int d, s_int e, s_int f, s_int g, s_bool h, s_int i)
      | _ -> raise (Bad "meta") in
    let res = ref [] in
    let mism d = if List.length !res < 6 then res := Mismatch d :: !res in
    let pf k d = res := Propfail (k, d) :: !res in
    let tags = ref [label] in
    let tag t = if not (List.mem t !tags) then tags := t :: !tags in
    if timeouts > 0 then mism "harness: a wait timed out";
    if appeared <> 1 then mism "client did not introduce itself exactly once";
    if cli_other <> 0 || srv_other <> 0 then mism "unexpected status messages";
    let writes_of op = List.filter (fun (o, _, _) -> o = op) log in
    (* ---- model run + per-operation property checks ---- *)
    let broken = ref false in
    let sent = ref [] in
    let op_gone = ref 0 in
    let any_failed = ref false in
    List.iteri (fun i ob ->
        let opno = i + 1 in
        let ws = writes_of opno in
        let wdata = List.filter (fun d -> d <> []) (List.map (fun (_, d, _) -> d) ws) in
        let wfailed = List.exists (fun (_, _, f) -> f) ws in
        if wfailed then any_failed := true;
        match lst ob with
        | [Atom "send"; bi; fa; fm; err; gone; transient] ->
          if s_bool transient then tag "transient-write-failure";
          let raw = bundles.(s_int bi) in
          let err = s_bool err and gone = s_int gone in
          sent := (raw, err) :: !sent;
          op_gone := !op_gone + gone;
          let cut = if s_int fa = 0 then None else Some (nat_of_int (s_int fa - 1), nat_of_int (s_int fm)) in
          let m = mtcp_send !broken raw cut in
          broken := m.sr_broken;
          if m.sr_error <> err then mism (Printf.sprintf "op %d: Send error: model %b impl %b" opno m.sr_error err);
          if (if m.sr_disappeared then 1 else 0) <> gone then mism (Printf.sprintf "op %d: PeerDisappeared: model %b impl %d" opno m.sr_disappeared gone);
          if m.sr_written <> wdata then
            mism (Printf.sprintf "op %d: writes on the connection differ: model %s impl %s" opno
                    (String.concat "," (List.map (fun c -> string_of_int (List.length c)) m.sr_written))
                    (String.concat "," (List.map (fun c -> string_of_int (List.length c)) wdata)));
          (* property *)
          if wfailed && not err then pf "mtcp.error.not-returned" "a write on the connection failed but Send returned success";
          if wfailed && gone < 1 then pf "mtcp.error.peer-not-reported" "a write on the connection failed but no PeerDisappeared was reported";
          if (not wfailed) && err then pf "mtcp.send.spurious-error" "Send returned an error although every write succeeded";
          if (not wfailed) && gone > 0 then pf "mtcp.peer-gone.spurious" "PeerDisappeared reported although every write succeeded";
          tag (if wfailed then (if !broken && ws <> [] && wdata = [] then "send-on-broken" else "send-cut") else
                 (if List.length wdata = 3 then "send-3-writes" else "send-2-writes"))
        | [Atom "sendbad"; err; gone] ->
          (* Send of a bundle that cannot be serialised: an error, nothing on the connection *)
          let err = s_bool err and gone = s_int gone in
          op_gone := !op_gone + gone;
          if ws <> [] then pf "mtcp.unserialisable.bytes-written" (Printf.sprintf "op %d: Send of a bundle that cannot be serialised wrote on the connection" opno);
          if not err then pf "mtcp.unserialisable.success" (Printf.sprintf "op %d: Send of a bundle that cannot be serialised returned success" opno);
          if gone <> (if err then 1 else 0) then mism (Printf.sprintf "op %d: PeerDisappeared after a serialisation error: impl %d" opno gone);
          tag "send-unserialisable"
        | [Atom "ka"; err] ->
          let err = s_bool err in
          if !broken then (if not err || wdata <> [] then mism "keep-alive on a broken connection went out")
          else if err || wdata <> [probe] then mism "keep-alive byte";
          tag "keepalive-injected"
        | [Atom "tick"; _] -> ()
        | _ -> raise (Bad "op")) (lst obs);
    (* the client's own ticker *)
    List.iter (fun (_, d, f) ->
        if f then (if d <> [] then mism "failed keep-alive wrote bytes")
        else if d <> probe then mism "the client's keep-alive is not a single 0x40") (writes_of 0);
    if ticks > 0 then begin
      tag "keepalive-real-ticker";
      if tick_seen < ticks then pf "mtcp.keepalive.missing" "no keep-alive was written by the client's ticker"
    end;
    if tick_break then begin
      tag "keepalive-on-broken";
      if tick_gone < 1 then pf "mtcp.keepalive.broken-not-reported" "keep-alive on a broken connection did not report the peer as gone"
    end;
    if total_gone < !op_gone + tick_gone then mism "PeerDisappeared count";
    if (not tick_break) && total_gone > !op_gone then pf "mtcp.peer-gone.spurious" "more PeerDisappeared statuses than failed operations";
    (* every successful write of a Send belongs to the frame of its bundle (frame, then the one-byte probe) *)
    let malformed = ref false in
    List.iteri (fun i ob -> match lst ob with
        | [Atom "send"; bi; _; _; _; _; _] ->
          let written = List.concat (List.map (fun (_, d, _) -> d) (writes_of (i + 1))) in
          if not (is_prefix written (mtcp_frame bundles.(s_int bi) @ probe)) then malformed := true
        | _ -> ()) (lst obs);
    if !malformed then
      pf "mtcp.send.foreign-bytes" "the bytes a Send wrote on the connection are not (a prefix of) the frame of its bundle followed by the probe"
    else if !transport_failed then
      pf "mtcp.server.connection-closed" "a write failed that the harness did not script: the server ended the connection on a well-formed stream";
    (* ---- server ---- *)
    let wire = List.concat (List.map (fun (_, d, _) -> d) log) in
    let mrecv = mtcp_server_opaque wire in
    if mrecv <> received then mism (Printf.sprintf "server: model hands up %d bundles, impl %d (or contents differ)" (List.length mrecv) (List.length received));
    (* theorem C12_mtcp_bundles: the same loop delimiting every bundle by Model/Bundle.v dec_bundle, as the Go server
       does (now = 0: no wall-clock lifetime check, the implementation accepted the bundles at its own time) *)
    let mrecv_b = List.map (fun b -> match enc_bundle b with Some bs -> bs | None -> [])
        (mtcp_server (fun _ s -> dec_bundle (n_of_int 0) s) wire) in
    if mrecv_b <> received then
      mism (Printf.sprintf "server: model parsing with dec_bundle hands up %d bundles, impl %d (or contents differ)" (List.length mrecv_b) (List.length received))
    else if received <> [] then tag "server-dec_bundle";
    let sent = List.rev !sent in
    let sent_raw = List.map fst sent in
    if not (is_prefix received sent_raw) then
      pf "mtcp.deliver.different" "the server handed up something that is not a prefix of the sent sequence (altered, reordered or extra bundle)"
    else begin
      if (not !any_failed) && List.length received <> List.length sent_raw then
        pf "mtcp.stream.lost" "no write failed, yet not every bundle sent was handed up";
      List.iteri (fun j (_, err) -> if (not err) && j >= List.length received then
                     pf "mtcp.send.success-not-delivered" "Send returned success but the bundle was not handed up") sent
    end;
    if !res = [] then [Ok_ !tags] else !res
  | _ -> raise (Bad "conn case")

let tcp = function
  | [Atom "unavailable"] -> [Ok_ ["tcp-unavailable"]]
  | [Atom "ok"; sl; rl; nerr; gone] ->
    let s = List.map s_bytes (lst sl) and r = List.map s_bytes (lst rl) in
    let res = ref [] in
    if s_int nerr > 0 || s_int gone > 0 then res := Propfail ("mtcp.tcp.error", "Send over an intact loopback connection errored") :: !res;
    if s <> r then res := Propfail ("mtcp.tcp.stream-differs", "bundles handed up over loopback TCP differ from the bundles sent") :: !res;
    if mtcp_server_opaque (mtcp_client_stream (List.map (fun b -> MSend b) s)) <> s then res := Mismatch "model stream" :: !res;
    if !res = [] then [Ok_ ["tcp"]] else !res
  | _ -> raise (Bad "tcp case")

(* one client object over several connections (Close + Start again, as cla.Manager.Restart does):
   every epoch is judged like a connection of its own - nothing of an earlier epoch / an earlier
   failed Send may show on the wire, every Send that returned nil delivered exactly its bundle *)
let reuse eps =
  let tags = ref [] and bad = ref [] in
  List.iteri (fun i e ->
      let pre = Printf.sprintf "connection %d of the client object: " (i + 1) in
      List.iter (function
          | Ok_ ts -> List.iter (fun t -> if not (List.mem t !tags) then tags := t :: !tags) ts
          | Mismatch d -> bad := Mismatch (pre ^ d) :: !bad
          | Propfail (k, d) -> bad := Propfail ((if i > 0 then "mtcp.reuse." ^ (String.sub k 5 (String.length k - 5)) else k), pre ^ d) :: !bad)
        (conn (lst e))) eps;
  if !bad = [] then [Ok_ (List.rev !tags)] else List.rev !bad

let () =
  register "C12mtcp" "reuse" reuse;
  register "C12mtcp" "conn" conn;
  register "C12mtcp" "tcp" tcp
