type verdict =
  | Ok_ of string list            (* tags: which model branches / classes the case hit *)
  | Mismatch of string            (* model and implementation disagree on a projected observable *)
  | Propfail of string * string   (* the property's checker fails on the implementation's output: key, detail *)

let handlers : (string * string, Sexp.t list -> verdict list) Hashtbl.t = Hashtbl.create 64
let register (gen : string) (kind : string) f = Hashtbl.replace handlers (gen, kind) f
