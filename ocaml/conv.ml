(* conversions between OCaml values / S-expressions and the extracted Coq datatypes *)
open Model

exception Bad of string

let rec pos_of_int (i : int) : positive =
  if i = 1 then XH else if i land 1 = 0 then XO (pos_of_int (i lsr 1)) else XI (pos_of_int (i lsr 1))
let n_of_int (i : int) : n = if i < 0 then raise (Bad "negative") else if i = 0 then N0 else Npos (pos_of_int i)
let rec int_of_pos = function XH -> 1 | XO p -> 2 * int_of_pos p | XI p -> 2 * int_of_pos p + 1
let int_of_n = function N0 -> 0 | Npos p -> int_of_pos p

let rec nat_of_int (i : int) : nat = if i <= 0 then O else S (nat_of_int (i - 1))
let rec int_of_nat = function O -> 0 | S k -> 1 + int_of_nat k

(* decimal string (up to any size) -> N, via the model's own arithmetic *)
let n_ten = n_of_int 10
let n_of_dec (s : string) : n =
  let acc = ref N0 in
  String.iter (fun c ->
      if c < '0' || c > '9' then raise (Bad ("not a number: " ^ s));
      acc := N.add (N.mul !acc n_ten) (n_of_int (Char.code c - 48))) s;
  !acc

(* N -> decimal string *)
let dec_of_n (x : n) : string =
  (* repeated division by 10 using positive arithmetic would need div; do it via bits *)
  (* convert to a big-endian list of bits then to decimal digits in OCaml *)
  let rec bits_pos p acc = match p with XH -> true :: acc | XO q -> bits_pos q (false :: acc) | XI q -> bits_pos q (true :: acc) in
  match x with
  | N0 -> "0"
  | Npos p ->
    let bits = List.rev (bits_pos p []) in  (* MSB first after rev? bits_pos builds LSB-first acc reversed *)
    (* bits_pos accumulates from LSB: first visited (LSB) ends deepest; the result list is MSB..? *)
    let bits = List.rev bits in
    (* digits little-endian decimal *)
    let digits = ref [0] in
    let double_add b =
      let carry = ref (if b then 1 else 0) in
      digits := List.map (fun d -> let v = 2 * d + !carry in carry := v / 10; v mod 10) !digits;
      if !carry > 0 then digits := !digits @ [!carry] in
    List.iter double_add bits;
    String.concat "" (List.rev_map string_of_int !digits)

let z_of_dec (s : string) : z =
  if String.length s > 0 && s.[0] = '-' then
    (match n_of_dec (String.sub s 1 (String.length s - 1)) with N0 -> Z0 | Npos p -> Zneg p)
  else (match n_of_dec s with N0 -> Z0 | Npos p -> Zpos p)
let dec_of_z = function Z0 -> "0" | Zpos p -> dec_of_n (Npos p) | Zneg p -> "-" ^ dec_of_n (Npos p)

let hexval c = match c with
  | '0'..'9' -> Char.code c - 48 | 'a'..'f' -> Char.code c - 87 | 'A'..'F' -> Char.code c - 55
  | _ -> raise (Bad "hex")

(* small table of the 256 byte values as N, shared *)
let byte_tbl = Array.init 256 n_of_int

let bytes_of_hexatom (a : string) : n list =
  if String.length a < 1 || a.[0] <> 'x' then raise (Bad ("hex atom expected: " ^ a));
  let len = (String.length a - 1) / 2 in
  let rec go i acc = if i < 0 then acc else go (i - 1) (byte_tbl.(hexval a.[1 + 2*i] * 16 + hexval a.[2 + 2*i]) :: acc) in
  go (len - 1) []

let hex_of_bytes (l : n list) : string =
  let b = Buffer.create 64 in
  Buffer.add_char b 'x';
  List.iter (fun x -> Buffer.add_string b (Printf.sprintf "%02x" (int_of_n x land 255))) l;
  Buffer.contents b

open Sexp
let atom = function Atom a -> a | l -> raise (Bad ("atom expected: " ^ Sexp.to_string l))
let lst = function List l -> l | a -> raise (Bad ("list expected: " ^ Sexp.to_string a))
let s_n s = n_of_dec (atom s)
let s_z s = z_of_dec (atom s)
let s_int s = int_of_string (atom s)
let s_nat s = nat_of_int (s_int s)
let s_bool s = (atom s) <> "0"
let s_bytes s = bytes_of_hexatom (atom s)
let s_sym s = atom s

let n_eq (a : n) (b : n) = (a = b)
let show_bool b = if b then "1" else "0"
