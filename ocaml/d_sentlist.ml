(* C13 (area SentList): replays the observed scenarios through the extracted model
   (Model.sl_step, one model state per bundle) and evaluates the property's own checker on the
   per-peer send log of the implementation. *)
open Model
open Conv
open Sexp
open Verdict

let i = int_of_n
let ni = n_of_int

type send = { sp : int; sb : int; sok : bool }
type held = { hb : int; pending : bool; known : bool; hsent : int list }

let send_of s = match lst s with
  | [p; b; ok] -> { sp = s_int p; sb = s_int b; sok = s_bool ok }
  | _ -> raise (Bad "send")
let held_of s = match lst s with
  | [b; pe; kn; sl] -> { hb = s_int b; pending = s_bool pe; known = s_bool kn; hsent = List.map s_int (lst sl) }
  | _ -> raise (Bad "held")

type binfo = { prev : int; recvr : int; dest : int; noblk : bool; mutable okset : int list;
               mutable owed : int list;     (* peers with a failed transmission not yet offered again *)
               mutable dead : bool;         (* spray variants after a restart: no metadata, never offered *)
               mutable st : sl_st option }  (* model state; None after a rejected step *)

let uniq l = List.sort_uniq compare l

let scen fields =
  match fields with
  | _name :: algo :: np :: sensors :: high :: ops ->
    let algo = atom algo in
    let _np = s_int np in
    let sensors = List.map s_int (lst sensors) and high = List.map s_int (lst high) in
    let persistent = not (algo = "spray" || algo = "binary_spray") in
    let unlimited = persistent in
    let res = ref [] and tags = ref [] in
    let tag t = if not (List.mem t !tags) then tags := t :: !tags in
    let fail v = if not (List.mem v !res) then res := v :: !res in
    let pf kind detail = fail (Propfail ("sentlist." ^ algo ^ "." ^ kind, detail)) in
    let bundles : (int, binfo) Hashtbl.t = Hashtbl.create 8 in
    let prev_held : held list ref = ref [] in
    let opno = ref 0 in
    let model_step b ev =
      let bi = Hashtbl.find bundles b in
      match bi.st with
      | None -> None
      | Some s ->
        (match sl_step s ev with
         | None -> bi.st <- None; fail (Mismatch (Printf.sprintf "op %d bundle %d: the model does not allow the observed step" !opno b)); None
         | Some (s', out) -> bi.st <- Some s'; Some (List.map i out)) in
    (* one dispatch of bundle b during an operation: sends = what the log shows for b *)
    let dispatch b (sends : send list) (conn : int list) =
      let bi = Hashtbl.find bundles b in
      let direct_now = bi.dest <> 0 && List.mem bi.dest conn in
      if direct_now then begin
        tag "direct";
        List.iter (fun s -> if s.sp <> bi.dest then
                      fail (Mismatch (Printf.sprintf "op %d bundle %d: sent to %d although its destination %d is connected" !opno b s.sp bi.dest))) sends
      end else begin
        let chosen_obs = uniq (List.map (fun s -> s.sp) sends) in
        (* ---- the property, on the log alone ---- *)
        List.iter (fun s ->
            if s.sp = bi.prev then
              pf (if bi.noblk then "no-spray-block.return-to-previous-node" else "return-to-previous-node")
                (Printf.sprintf "bundle %d is sent to peer %d, its previous node" b s.sp);
            if List.mem s.sp bi.okset then pf "duplicate" (Printf.sprintf "bundle %d is sent to peer %d again after a successful transmission" b s.sp);
            if s.sok then bi.okset <- s.sp :: bi.okset) sends;
        (match List.filter (fun p -> List.length (List.filter (fun s -> s.sp = p) sends) > 1) chosen_obs with
         | p :: _ -> pf "duplicate" (Printf.sprintf "bundle %d is handed to two senders of peer %d at once" b p)
         | [] -> ());
        (* a failed peer is offered the bundle again at the next opportunity: the next dispatch
           while it is connected (binary spray offers one peer per dispatch, the mule never
           offers sensors, a spray node has forgotten everything after a restart) *)
        let eligible p =
          List.mem p conn && not bi.dead
          && (algo <> "prophet" || List.mem p high)
          && (algo <> "mule" || not (List.mem p sensors))
          && algo <> "binary_spray" (* one peer per dispatch and a budget that halves: which peer is C18's business *) in
        List.iter (fun p ->
            if eligible p then begin
              if List.mem p chosen_obs then tag "failed-peer-reoffered"
              else pf "failed-not-reoffered" (Printf.sprintf "op %d: the transmission of bundle %d to peer %d failed earlier; the peer is connected and the bundle is dispatched, but it is not offered" !opno b p)
            end) bi.owed;
        bi.owed <- List.filter (fun p -> not (List.mem p chosen_obs) && not (eligible p)) bi.owed;
        List.iter (fun s -> if not s.sok && not (List.mem s.sp bi.owed) then bi.owed <- s.sp :: bi.owed) sends;
        (* ---- the model ---- *)
        let cands_all = if algo = "prophet" then List.filter (fun p -> List.mem p high) conn else conn in
        let cands = chosen_obs @ List.filter (fun p -> not (List.mem p chosen_obs)) cands_all in
        let k = if unlimited then List.length cands else List.length chosen_obs in
        (match model_step b (SlChoose (List.map ni cands, nat_of_int k)) with
         | None -> ()
         | Some chosen ->
           let excluded =
             if algo = "mule" then
               (* the receiver the node remembers for the bundle: the stored descriptor loses it
                  when no peer was connected at the reception (Sync's first push writes no
                  properties) - validated from the observation, not predicted *)
               let recvr = if bi.recvr <> 0 && List.mem bi.recvr chosen_obs then (tag "mule-sensor-receiver"; Some (ni bi.recvr)) else None in
               List.map i (sl_mule_excluded (fun p -> List.mem (i p) sensors) recvr (List.map ni chosen))
             else [] in
           List.iter (fun p -> tag "mule-excluded"; ignore (model_step b (SlFail (ni p)))) excluded;
           let expected = uniq (List.filter (fun p -> not (List.mem p excluded)) chosen) in
           if expected <> chosen_obs then
             fail (Mismatch (Printf.sprintf "op %d bundle %d: model offers it to [%s], implementation to [%s]" !opno b
                               (String.concat " " (List.map string_of_int expected)) (String.concat " " (List.map string_of_int chosen_obs))))
           else begin
             if chosen_obs <> [] then tag "offered";
             (* outcome per peer: with two senders of one peer only one is used *)
             List.iter (fun p ->
                 let s = List.find (fun s -> s.sp = p) sends in
                 if s.sok then (tag "send-ok"; ignore (model_step b (SlOk (ni p))))
                 else (tag "send-fail"; ignore (model_step b (SlFail (ni p))))) chosen_obs
           end)
      end in
    List.iter (fun op ->
        incr opno;
        let l = lst op in
        let kind = atom (List.hd l) in
        let args, sends, held, conn =
          match List.rev (List.tl l) with
          | c :: h :: s :: rest -> List.rev rest, List.map send_of (lst s), List.map held_of (lst h), List.map s_int (lst c)
          | _ -> raise (Bad "op") in
        tag kind;
        let sends_of b = List.filter (fun s -> s.sb = b) sends in
        (match kind, args with
         | "recv", [b; prev; recvr; dest; blk] ->
           let b = s_int b and prev = s_int prev in
           (* binary spray: a bundle without a spray block (relayed by a node that does not speak
              binary spray); its previous node is recorded like any other since the fix *)
           let noblk = not (s_bool blk) in
           if noblk then tag "no-spray-block";
           Hashtbl.replace bundles b { prev; recvr = s_int recvr; dest = s_int dest; noblk; okset = []; owed = []; dead = false;
                                       st = Some (sl_fresh (if prev = 0 then None else Some (ni prev))) };
           tag (if prev = 0 then "prev-none" else if prev = 9 then "prev-elsewhere" else "prev-peer");
           if s_int dest = 7 then begin
             tag "local-destination";
             if sends_of b <> [] then fail (Mismatch (Printf.sprintf "op %d: bundle %d for an endpoint of this node is transmitted" !opno b))
           end else dispatch b (sends_of b) conn
         | "rerecv", [b; prev; recvr; dest; blk; held] ->
           (* the same bundle handed in again with another previous node *)
           let b = s_int b and prev = s_int prev in
           if s_bool held then begin
             (* still stored: Core.receive drops the duplicate, the algorithm is not told *)
             tag "rerecv-while-held";
             (* ... but the handler has already synced the descriptor with the duplicate's receiving
                endpoint (core.go: bp.Receiver = crb.Endpoint; bp.Sync()), which is what the sensor mule
                goes by afterwards *)
             (match Hashtbl.find_opt bundles b with
              | Some old when algo = "mule" -> Hashtbl.replace bundles b { old with recvr = s_int recvr }
              | _ -> ());
             if sends_of b <> [] then fail (Mismatch (Printf.sprintf "op %d: duplicate of the held bundle %d triggers transmissions" !opno b))
           end else begin
             let old = Hashtbl.find bundles b in
             if old.st <> None && old.st <> Some sl_gone then
               fail (Mismatch (Printf.sprintf "op %d: bundle %d is received as new, the model still holds it" !opno b));
             let noblk = not (s_bool blk) in
             let st = match old.st with
               | Some s -> (match sl_step s (SlNew (if prev = 0 then None else Some (ni prev))) with Some (s', _) -> Some s' | None -> None)
               | None -> None in
             Hashtbl.replace bundles b { prev; recvr = s_int recvr; dest = s_int dest; noblk; okset = []; owed = []; dead = false; st };
             tag "rerecv-after-leaving";
             tag (if prev = 0 then "again-prev-none" else if prev = 9 then "again-prev-elsewhere" else "again-prev-peer");
             if s_int dest = 7 then begin
               if sends_of b <> [] then fail (Mismatch (Printf.sprintf "op %d: bundle %d for an endpoint of this node is transmitted" !opno b))
             end else dispatch b (sends_of b) conn
           end
         | ("expire" | "gc"), _ ->
           if sends <> [] then fail (Mismatch (Printf.sprintf "op %d (%s): unexpected sends" !opno kind))
         | "submit", [b; dest] ->
           let b = s_int b in
           Hashtbl.replace bundles b { prev = 0; recvr = 0; dest = s_int dest; noblk = false; okset = []; owed = []; dead = false; st = Some (sl_fresh None) };
           if s_int dest = 7 then begin
             tag "local-destination";
             if sends_of b <> [] then fail (Mismatch (Printf.sprintf "op %d: bundle %d for an endpoint of this node is transmitted" !opno b))
           end else dispatch b (sends_of b) conn
         | ("up" | "up2" | "tick"), _ ->
           (* checkPendingBundles: every pending bundle is dispatched *)
           List.iter (fun h -> if h.pending && Hashtbl.mem bundles h.hb then dispatch h.hb (sends_of h.hb) conn) !prev_held;
           List.iter (fun s -> if not (List.exists (fun h -> h.hb = s.sb && h.pending) !prev_held) then
                         fail (Mismatch (Printf.sprintf "op %d: bundle %d is sent although it was not pending" !opno s.sb))) sends
         | "restart", _ ->
           List.iter (fun h -> if Hashtbl.mem bundles h.hb then begin
                         ignore (model_step h.hb (SlRestart persistent));
                         if not persistent then (Hashtbl.find bundles h.hb).dead <- true end) !prev_held;
           if sends <> [] then fail (Mismatch "sends during a restart")
         | ("down" | "failon" | "failoff"), _ ->
           if sends <> [] then fail (Mismatch (Printf.sprintf "op %d (%s): unexpected sends" !opno kind))
         | _ -> raise (Bad ("op " ^ kind)));
        (* bundles that left the store *)
        Hashtbl.iter (fun b bi ->
            if not (List.exists (fun h -> h.hb = b) held) && bi.st <> Some sl_gone then begin
              (match bi.st with Some _ -> ignore (model_step b SlDrop) | None -> ());
              tag "dropped";
              bi.okset <- []; bi.owed <- []; bi.dead <- true
            end) bundles;
        (* correspondence of the bookkeeping itself *)
        List.iter (fun h ->
            match Hashtbl.find_opt bundles h.hb with
            | Some { st = Some s; dead; _ } ->
              if h.known && not dead then begin
                let m = uniq (List.map i s.sl_sent) in
                let o = uniq (List.map (fun p -> if p = 99 then 9 else p) h.hsent) in
                if m <> o then
                  fail (Mismatch (Printf.sprintf "op %d (%s) bundle %d: sent list model [%s] impl [%s]" !opno kind h.hb
                                    (String.concat " " (List.map string_of_int m)) (String.concat " " (List.map string_of_int o))))
              end
            | _ -> ()) held;
        prev_held := held
      ) ops;
    if !res = [] then [Ok_ (algo :: List.rev !tags)] else List.rev !res
  | _ -> raise (Bad "scen")

let () = register "C13sentlist" "scen" scen
