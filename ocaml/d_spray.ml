(* C18 - spray-and-wait / binary spray: replays the observed histories through the extracted
   per-bundle model (Model.spray_step) and evaluates the property's own checkers on what the
   implementation did.

   case:  (case n hist <binary> <L> <sync> <nb> (( <event> ( <obs of bundle 0> ... ) ) ...))
   event: (create b origin viaRx dst (blk?) (prev?)) | (up cla node fail) | (down cla) |
          (setfail cla fail) | (tick) | (gc)
          a create event for a bundle created before = the same bundle received again: a duplicate
          while the store knows the bundle, otherwise (it was delivered and left the store) a new
          life of the bundle on this node begins - NotifyNewBundle initialises the metadata afresh
          (Model.spray_step: SeCreate; Model.spray_enters).  The property's checkers judge the
          transmissions of each life against the budget that life started with.
          | (par-gc mode <event> c0 c1)   generator C18sprayconc: the metadata garbage collection runs
            concurrently with the event (mode 1: started before it, 2: from inside SenderForBundle,
            3: from inside Send); c0 / c1 = metadata entries before the harness added leftovers of
            unknown bundles / after event and collection
   obs:   ( ((cla node ok (blk?)) ...)  () | (rem (sent...))  stored ) *)
open Model
open Conv
open Sexp
open Verdict

let opt_n s = match lst s with [] -> None | [x] -> Some (s_n x) | _ -> raise (Bad "option")

type osend = { o_cla : int; o_node : int; o_ok : bool; o_blk : n option; o_weird : string option }

let osend_of s = match lst s with
  | [c; nd; ok; blk] ->
    let b, w = (match lst blk with
        | [] -> None, None
        | [Atom a] when String.length a > 0 && a.[0] >= '0' && a.[0] <= '9' -> Some (n_of_dec a), None
        | [Atom a] -> None, Some a
        | _ -> raise (Bad "blk")) in
    { o_cla = s_int c; o_node = s_int nd; o_ok = s_bool ok; o_blk = b; o_weird = w }
  | _ -> raise (Bad "send")

let show_on = function None -> "-" | Some v -> dec_of_n v
let show_sends l =
  String.concat "," (List.map (fun (c, nd, ok, b) -> Printf.sprintf "c%d>p%d:%s:%s" c nd (if ok then "ok" else "fail") (show_on b)) l)
let show_meta = function
  | None -> "none"
  | Some (r, s) -> Printf.sprintf "rem=%s sent=[%s]" (dec_of_n r) (String.concat " " (List.map string_of_int s))

type bstate = {
  mutable st : sstate;
  mutable created : bool;
  mutable origin : bool;
  mutable dst : int;
  mutable init_copies : n;
  mutable outs : ssend list;       (* everything the implementation transmitted for this bundle in its current life *)
  mutable istored : bool;          (* the implementation's store knew the bundle after the previous event *)
  mutable lives : int;             (* times the bundle entered the store *)
  mutable relays_ever : int;       (* successful transmissions to non-destination peers over all lives *)
  mutable prev_rem : n option;     (* implementation's count after the previous event *)
  mutable dead : bool;             (* model already diverged: stop comparing *)
  mutable pdead : bool;            (* property already failed for this bundle: report only the first failure *)
  mutable bdead : bool;            (* ... except that an exceeded budget is always reported (once) *)
  mutable noprev : bool;           (* the current life began without a PreviousNodeBlock *)
}

(* optional 6th field (naming mule): naming > 0 = the numbered nodes carry nearly colliding endpoint IDs
   (same authority under the other URI scheme, letter case, prefixes) - node identity stays the number,
   nothing changes for model and checkers; mule = the Core runs "sensor-mule" around the spray algorithm
   (sensors = nodes 1, 3, 5): the model does not describe the overlay's exclusion passes (selected sensors
   are handed back at once, which costs slots of the pass), so these histories are judged by the property's
   own checkers on the send log and the metadata only, plus: the sent list names exactly the relays that
   got the bundle (an excluded sensor is neither charged nor listed). *)
let rec hist = function
  | [binary; l; sync; nb; evs] -> hist_opt 0 false [binary; l; sync; nb; evs]
  | [binary; l; sync; nb; evs; opt] ->
    (match lst opt with
     | [nm; mu] -> hist_opt (s_int nm) (s_bool mu) [binary; l; sync; nb; evs]
     | _ -> raise (Bad "hist opt"))
  | _ -> raise (Bad "hist case")
and hist_opt naming mule = function
  | [binary; l; sync; nb; evs] ->
    let binary = s_bool binary and ln = s_n l and sync = s_bool sync and nb = s_int nb in
    let conf = { sc_algo = (if binary then SprayBinary else SprayVanilla); sc_L = ln } in
    let bs = Array.init nb (fun _ -> { st = spray_init; created = false; origin = false; dst = 0; init_copies = N0;
                                       outs = []; istored = false; lives = 0; relays_ever = 0;
                                       prev_rem = None; dead = mule; pdead = false; bdead = false; noprev = true }) in
    let res = ref [] in
    let tags = Hashtbl.create 16 in
    let tag t = Hashtbl.replace tags t () in
    tag (if binary then "binary" else "vanilla");
    if sync then tag "sync";
    if naming > 0 then tag (Printf.sprintf "naming%d" naming);
    if mule then tag "mule";
    tag (Printf.sprintf "L%s" (dec_of_n ln));
    let evno = ref 0 in
    List.iter (fun ev ->
        incr evno;
        let e, obs = (match lst ev with [e; o] -> e, Array.of_list (lst o) | _ -> raise (Bad "event")) in
        if Array.length obs <> nb then raise (Bad "obs count");
        (* which model event for which bundle *)
        let el0 = lst e in
        let gcmode, el, counts = (match el0 with
            | [Atom "par-gc"; m; inner; c0; c1] -> s_int m, lst inner, Some (s_int c0, s_int c1)
            | _ -> 0, el0, None) in
        let kind = s_sym (List.hd el) in
        if gcmode > 0 then begin
          tag ("gc-overlap-" ^ (match gcmode with 1 -> "first" | 2 -> "select" | _ -> "send") ^ "-" ^ kind);
          (* the collection removes the leftovers and nothing else (no bundle of these histories leaves the store) *)
          (match counts with
           | Some (c0, c1) ->
             let want = c0 + (if kind = "create" then 1 else 0) in
             if c1 <> want then
               res := Mismatch (Printf.sprintf "event %d (%s, metadata GC running): %d metadata entries afterwards, expected %d (entries before %d; leftovers of unknown bundles are collected, live entries stay)" !evno kind c1 want c0) :: !res
           | None -> ())
        end;
        let mev_for (bi : int) : sevent option =
          match kind, List.tl el with
          | "create", [b; origin; _viarx; dst; blk; prev] ->
            if s_int b = bi then begin
              let st = bs.(bi) in
              if st.created && st.istored then
                (* received again while the implementation's store knows it: nothing may change -
                   the checkers go on judging this life (a re-initialised budget shows as remaining +
                   handed over <> L, a transmission counts like any other) *)
                tag "again-duplicate-while-stored"
              else begin
                (* the bundle enters the store: first creation, or it comes back after it was delivered *)
                if st.created then tag (if s_bool origin then "again-own-bundle-comes-back" else "again-foreign-bundle-comes-back");
                if s_bool origin && opt_n prev <> None then tag "own-bundle-with-previous-node";
                st.created <- true; st.origin <- s_bool origin; st.dst <- s_int dst;
                st.lives <- st.lives + 1;
                st.noprev <- (opt_n prev = None);
                st.outs <- [];
                st.init_copies <- (match opt_n blk with Some k when binary -> k | _ -> if binary || s_bool origin then ln else n_of_int 1);
                st.prev_rem <- Some st.init_copies
              end;
              Some (SeCreate (s_bool origin, s_n dst, opt_n blk, opt_n prev))
            end else None
          | "up", [c; nd; f] -> Some (SePeerUp (s_n c, s_n nd, s_bool f))
          | "down", [c] -> Some (SePeerDown (s_n c))
          | "setfail", [c; f] -> Some (SeSetFail (s_n c, s_bool f))
          | "tick", [] -> Some SeTick
          | "gc", [] -> Some SeGC
          | _ -> raise (Bad ("event " ^ kind))
        in
        for bi = 0 to nb - 1 do
          let b = bs.(bi) in
          let o_sends, o_meta, o_stored = (match lst obs.(bi) with
              | [s; m; st] ->
                List.map osend_of (lst s),
                (match lst m with [] -> None | [r; sl] -> Some (s_n r, List.sort compare (List.map s_int (lst sl))) | _ -> raise (Bad "meta")),
                s_bool st
              | _ -> raise (Bad "obs")) in
          let where = Printf.sprintf "event %d (%s) bundle %d: " !evno kind bi in
          match mev_for bi with
          | None ->
            if o_sends <> [] && not b.dead then begin
              b.dead <- true; res := Mismatch (where ^ "transmissions although the event does not concern this bundle") :: !res end
          | Some mev ->
            begin
              if not b.dead then begin
              List.iter (fun o -> match o.o_weird with
                  | Some w -> b.dead <- true; res := Mismatch (where ^ "transmitted bundle: " ^ w) :: !res
                  | None -> ()) o_sends;
              (* ---------- correspondence: model step with the observed choice as oracle ---------- *)
              let choice = List.map (fun o -> n_of_int o.o_cla) o_sends in
              let mstep = if gcmode = 0 then spray_step conf b.st mev choice
                else (match spray_step_gc false conf b.st mev choice, spray_step_gc true conf b.st mev choice with
                    | Some (s1, o1), Some (s2, o2) when s1 = s2 && o1 = o2 -> Some (s1, o1)
                    | Some _, Some _ ->
                      (* the two serial orders differ (the event removes the bundle from the store): not generated *)
                      tag "gc-overlap-order-matters"; spray_step_gc false conf b.st mev choice
                    | r, _ -> r) in
              (match mstep with
               | None ->
                 b.dead <- true;
                 res := Mismatch (where ^ "the model does not allow the observed choice of senders [" ^
                                  show_sends (List.map (fun o -> (o.o_cla, o.o_node, o.o_ok, o.o_blk)) o_sends) ^ "]") :: !res
               | Some (st', mouts) ->
                 let canon l = List.sort compare l in
                 let ms = canon (List.map (fun s -> (int_of_n s.sn_cla, int_of_n s.sn_node, s.sn_ok, s.sn_blk)) mouts) in
                 let os = canon (List.map (fun o -> (o.o_cla, o.o_node, o.o_ok, o.o_blk)) o_sends) in
                 let mm = (match st'.ss_meta with None -> None
                                                 | Some m -> Some (m.sm_rem, List.sort compare (List.map int_of_n m.sm_sent))) in
                 if ms <> os then begin
                   b.dead <- true;
                   res := Mismatch (where ^ "transmissions: model [" ^ show_sends ms ^ "] impl [" ^ show_sends os ^ "]") :: !res end
                 else if b.created && mm <> o_meta then begin
                   b.dead <- true;
                   res := Mismatch (where ^ "metadata: model " ^ show_meta mm ^ " impl " ^ show_meta o_meta) :: !res end
                 else if b.created && st'.ss_stored <> o_stored then begin
                   b.dead <- true;
                   res := Mismatch (where ^ Printf.sprintf "store knows bundle: model %b impl %b" st'.ss_stored o_stored) :: !res end;
                 b.st <- st';
                 List.iter (fun s ->
                     tag ((if s.sn_direct then "direct-" else "relay-") ^ (if s.sn_ok then "ok" else "fail"))) mouts;
                 if List.length (List.filter (fun s -> not s.sn_ok) mouts) >= 2 then tag "concurrent-failures";
                 (match kind with "gc" -> if st'.ss_meta = None && b.created then tag "gc-removed" | _ -> ()))
              end;
              (* ---------- the property itself, on the implementation's behaviour ---------- *)
              if b.created then begin
                let dstn = n_of_int b.dst in
                let these = List.map (fun o -> { sn_cla = n_of_int o.o_cla; sn_node = n_of_int o.o_node; sn_ok = o.o_ok;
                                                 sn_blk = o.o_blk; sn_direct = (o.o_node = b.dst) }) o_sends in
                b.outs <- b.outs @ these;
                b.relays_ever <- b.relays_ever + List.length (List.filter (fun o -> o.o_ok && o.o_node <> b.dst) o_sends);
                (* over several lives the node hands out more than L-1 copies: it has no memory of a bundle that left
                   the store (C18_budget_across_lives). The per-life checkers below judge each life; this one judges
                   the property as stated, over the whole history (known finding spray.budget.across-lives). *)
                let new_relays = List.length (List.filter (fun o -> o.o_ok && o.o_node <> b.dst) o_sends) in
                if (not binary) && b.origin && b.lives >= 2 && b.relays_ever > int_of_n ln - 1 then begin
                  tag "across-lives-more-than-L-1-relays";
                  if b.relays_ever - new_relays <= int_of_n ln - 1 then
                    res := Propfail ("spray.budget.across-lives",
                                     where ^ Printf.sprintf "%d successful transmissions to relays over %d lives of the bundle in the store, budget L = %s"
                                       b.relays_ever b.lives (dec_of_n ln)) :: !res
                end;
                let nfail = List.length (List.filter (fun o -> not o.o_ok) o_sends) in
                let direct_fail = List.exists (fun o -> (not o.o_ok) && o.o_node = b.dst) o_sends in
                let relays = List.filter (fun o -> o.o_node <> b.dst) o_sends in
                let pf key detail =
                  (* an update of the metadata made while the collection ran has been lost *)
                  let key, detail =
                    if gcmode > 0 && key <> "spray.budget.exceeded" && key <> "bspray.single-copy.relayed" then
                      (if binary then "bspray.gc.lost-update" else "spray.gc.lost-update"),
                      "while the metadata garbage collection ran: " ^ detail
                    else key, detail in
                  if key = "spray.budget.exceeded" then begin
                    if not b.bdead then begin b.bdead <- true; b.pdead <- true; res := Propfail (key, where ^ detail) :: !res end end
                  else if not b.pdead then begin b.pdead <- true; res := Propfail (key, where ^ detail) :: !res end in
                (* a pending bundle without metadata has lost its copy budget (never sprayed again) *)
                if o_stored && o_meta = None then
                  pf "spray.metadata.lost" "the store knows the bundle but the algorithm has no metadata for it";
                if not binary then begin
                  if b.origin then begin
                    if not (spray_budget_ok ln dstn b.outs) then
                      pf "spray.budget.exceeded"
                        (Printf.sprintf "%s successful transmissions to peers other than the destination with L=%s"
                           (dec_of_n (spray_relayed dstn b.outs)) (dec_of_n ln));
                    (match o_meta with
                     | Some (rem, _) when not (spray_account_ok ln dstn rem b.outs) ->
                       let d = Printf.sprintf "remaining %s + handed over %s <> L=%s" (dec_of_n rem)
                           (dec_of_n (spray_relayed dstn b.outs)) (dec_of_n ln) in
                       if direct_fail && relays = [] then pf "spray.giveback.direct-failure-inflates" d
                       else if nfail >= 2 then pf "spray.giveback.concurrent-lost" d
                       else pf "spray.giveback.accounting" d
                     | _ -> ())
                  end
                end else begin
                  (match b.prev_rem, o_meta with
                   | Some r, Some (r', _) ->
                     (match relays with
                      | [] ->
                        if r' <> r then
                          (if direct_fail then pf "bspray.direct-failure.changes-count"
                               (Printf.sprintf "copies %s -> %s by a failed direct delivery" (dec_of_n r) (dec_of_n r'))
                           else pf "bspray.count.drift" (Printf.sprintf "copies %s -> %s without a transmission" (dec_of_n r) (dec_of_n r')))
                      | [o] ->
                        if not (bspray_send_ok r r' o.o_blk o.o_ok) then begin
                          let d = Printf.sprintf "held %s, announced %s, kept %s, send %s" (dec_of_n r) (show_on o.o_blk)
                              (dec_of_n r') (if o.o_ok then "ok" else "failed") in
                          if int_of_n r < 2 then pf "bspray.single-copy.relayed" d
                          else if o.o_blk <> Some (n_of_int (int_of_n r / 2)) then pf "bspray.split.value" d
                          else if o.o_ok then pf "bspray.split.conservation" d
                          else pf "bspray.failure.leak" d
                        end
                      | _ ->
                        (* several relays in one pass (not what the code does today): judge conservation only *)
                        let handed = List.fold_left (fun acc o -> match o.o_blk with
                            | Some v when o.o_ok -> N.add acc v | _ -> acc) N0 relays in
                        if int_of_n r < 2 then pf "bspray.single-copy.relayed" "relays although fewer than two copies are held"
                        else if List.exists (fun o -> o.o_blk = None) relays || N.add r' handed <> r then
                          pf "bspray.split.conservation"
                            (Printf.sprintf "held %s, kept %s, announced to successful relays %s (several relays in one pass)"
                               (dec_of_n r) (dec_of_n r') (dec_of_n handed)))
                   | _ -> ());
                end;
                (* sensor-mule overlay: the sent list names exactly the relays that got the bundle in this life *)
                if mule && b.noprev && o_stored then begin
                  (match o_meta with
                   | Some (_, sent) ->
                     let got = List.sort_uniq compare
                         (List.filter_map (fun s -> if s.sn_ok && not s.sn_direct then Some (int_of_n s.sn_node) else None) b.outs) in
                     if sent <> got then
                       pf "spray.mule.sent-list"
                         (Printf.sprintf "sent list [%s], successful transmissions to relays [%s] (sensors = nodes 1, 3, 5)"
                            (String.concat " " (List.map string_of_int sent)) (String.concat " " (List.map string_of_int got)))
                     else if List.exists (fun n -> n = 1 || n = 3 || n = 5) got then tag "mule-sensor-served"
                     else if got <> [] then tag "mule-relay-served"
                   | None -> ())
                end;
                b.prev_rem <- (match o_meta with Some (r, _) -> Some r | None -> None);
                b.istored <- o_stored
              end
            end
        done) (lst evs);
    let bad = List.rev !res in
    if bad = [] then [Ok_ (List.sort compare (Hashtbl.fold (fun k () acc -> k :: acc) tags []))] else bad
  | _ -> raise (Bad "hist case")

let () = register "C18spray" "hist" hist; register "C18sprayconc" "hist" hist; register "C18spraynames" "hist" hist
