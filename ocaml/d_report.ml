(* C15 - status reports: replay of the Core harness cases through the extracted model Report.v,
   and the property's own checker (rp_check) on the reports the implementation sent. *)
open Model
open Conv
open Sexp
open Verdict

let env_of_s s = match lst s with
  | [node; agents; clas] ->
    (* a listener ID comes as (cla-type eid) - the type only matters for the registration, the node's
       endpoints are the union over all types - or, in old corpus lines, as the bare eid *)
    let cla_eid c = match c with List [_; e] -> D_bundle.s_eid e | _ -> D_bundle.s_eid c in
    { rn_node = D_bundle.s_eid node; rn_agents = List.map D_bundle.s_eid (lst agents); rn_clas = List.map cla_eid (lst clas) }
  | _ -> raise (Bad "env")

let facts_of_s s = match lst s with
  | [r; f; h; d] -> { fa_received = s_bool r; fa_sent_ok = s_bool f; fa_handed = s_bool h; fa_deleted = s_bool d }
  | _ -> raise (Bad "facts")

let eid_str e = D_bundle.str_of_bytes (eid_print e)

let show_frag = function None -> "-" | Some (o, t) -> dec_of_n o ^ "/" ^ dec_of_n t
let show_rep r =
  Printf.sprintf "[pos %s reason %s flags %s src %s dst %s life %s ref %s-%s-%s frag %s time %s]"
    (dec_of_n r.rpr_pos) (dec_of_n r.rpr_reason) (dec_of_n r.rpr_flags) (eid_str r.rpr_src) (eid_str r.rpr_dst) (dec_of_n r.rpr_life)
    (eid_str r.sr_ref_src) (dec_of_n r.sr_ref_time) (dec_of_n r.sr_ref_seq) (show_frag r.sr_ref_frag)
    (match r.rpr_time with Some _ -> "yes" | None -> "no")

(* an observed report: Badrep (key, detail) when it is not even a well-shaped status report *)
type obsrep = { rep : rp_sreport; rpt : eid; time_in_bracket : bool; nblocks : int;
                codec_differs : bool  (* the implementation's own decoder reads the report differently from the reference decoder *) }
type 'a orbad = Good of 'a | Badrep of (string * string)

(* The report's administrative record is decoded from its bytes by the MODEL's decoder
   (Model.dec_admrec, AuxCbor.v): items, reason and the reference bundle ID come from there.  The
   fields the harness decoded with the implementation's own decoder are compared with them. *)
let rep_of_s (now : n) s : obsrep orbad =
  match lst s with
  | [Atom "badrep"; why] -> Badrep ("report.shape.undecodable", D_bundle.str_of_bytes (s_bytes why))
  | [Atom "rep"; items; reason; flags; src; dst; rpt; life; rf; nbl; payload; t0; t1] ->
    (match dec_admrec (s_bytes payload) with
     | Ok (sr, []) ->
       let t0 = s_n t0 and t1 = s_n t1 in
       let mitems = List.map (fun it -> (it.si_asserted, it.si_req, N.leb t0 it.si_time && N.leb it.si_time t1)) sr.sr_items in
       let iitems = List.map (fun i -> match lst i with [a; q; b] -> (s_bool a, s_bool q, s_bool b) | _ -> raise (Bad "item")) (lst items) in
       let iref = match lst rf with
         | [rs; rt; rq; isf; off; tot] ->
           { bid_src = D_bundle.s_eid rs; bid_time = s_n rt; bid_seq = s_n rq; bid_frag = s_bool isf; bid_off = s_n off; bid_total = s_n tot }
         | _ -> raise (Bad "refbundle") in
       let mref = sr.sr_ref in
       (* a whole bundle's ID has no offset / length on the wire: the decoders leave them 0 *)
       let same_ref = mref.bid_src = iref.bid_src && mref.bid_time = iref.bid_time && mref.bid_seq = iref.bid_seq && mref.bid_frag = iref.bid_frag
                      && (not mref.bid_frag || (mref.bid_off = iref.bid_off && mref.bid_total = iref.bid_total)) in
       let codec_differs = not same_ref || sr.sr_reason <> s_n reason
                           || List.map (fun (a, q, b) -> (a, q, (not q) || b)) mitems <> List.map (fun (a, q, b) -> (a, q, (not q) || b)) iitems in
       let items = mitems in
       let asserted = List.filter (fun (_, (a, _, _)) -> a) (List.mapi (fun i x -> (i, x)) items) in
       (* an item that is not asserted must not carry a time either *)
       if List.length items <> 4 then Badrep ("report.shape.positions", "status information array does not have four items")
       else if List.exists (fun (a, q, _) -> (not a) && q) items then Badrep ("report.shape.positions", "time on an item that is not asserted")
       else (match asserted with
           | [(pos, (_, req, inb))] ->
             Good { rep = { rpr_pos = n_of_int pos; rpr_reason = sr.sr_reason; rpr_flags = s_n flags; rpr_src = D_bundle.s_eid src;
                            rpr_dst = D_bundle.s_eid dst; rpr_life = s_n life; sr_ref_src = mref.bid_src; sr_ref_time = mref.bid_time;
                            sr_ref_seq = mref.bid_seq; sr_ref_frag = (if mref.bid_frag then Some (mref.bid_off, mref.bid_total) else None);
                            rpr_time = (if req then Some now else None) };
                    rpt = D_bundle.s_eid rpt; time_in_bracket = inb; nblocks = s_int nbl; codec_differs }
           | l -> Badrep ("report.shape.positions", Printf.sprintf "%d status items asserted, not exactly one" (List.length l)))
     | Ok (_, _ :: _) -> Badrep ("report.shape.undecodable", "bytes left over after the status report in the report bundle's payload")
     | _ -> Badrep ("report.shape.undecodable", "the report bundle's payload is not a status report administrative record (reference decoder): x"
                                                 ^ hex_of_bytes (s_bytes payload)))
  | _ -> raise (Bad "rep")

let uniq l = List.sort_uniq compare l
let kind_name p = match int_of_n p with 0 -> "received" | 1 -> "forwarded" | 2 -> "delivered" | 3 -> "deleted" | _ -> "other"

let key_of_code (c : n) (r : rp_sreport) = match int_of_n c with
  | 1 | 2 | 3 | 4 -> "report.untruthful." ^ kind_name r.rpr_pos
  | 5 | 6 | 7 | 8 -> "report.unrequested." ^ kind_name r.rpr_pos
  | 9 -> "report.shape.flags"
  | 10 -> "report.shape.destination"
  | 11 -> "report.shape.refbundle"
  | 12 -> "report.shape.time"
  | 13 -> "report.about-admin-record"
  | 14 -> "report.to-self"
  | _ -> "report.shape.positions"

(* the property checker on the implementation's own reports *)
let prop_checks env b facts (obs : obsrep orbad list) : verdict list =
  List.concat_map (function
      | Badrep (k, d) -> [Propfail (k, d)]
      | Good o ->
        let codes = rp_check env b facts o.rep in
        List.map (fun c -> Propfail (key_of_code c o.rep, "report " ^ show_rep o.rep ^ " about bundle " ^ D_bundle.str_of_bytes (id_str b))) codes
        @ (if o.rep.rpr_time <> None && not o.time_in_bracket
           then [Propfail ("report.shape.time", "status time outside the interval in which the node processed the bundle")] else [])
    ) obs

let ev_tag = function
  | EvReceived -> "received" | EvDuplicate -> "duplicate" | EvUnknownBlock _ -> "unknown-block" | EvBlockRemoved _ -> "block-removed"
  | EvNotDispatched -> "not-dispatched" | EvSend true -> "send-ok" | EvSend false -> "send-fail" | EvForwarded -> "forwarded"
  | EvAllSendsFailed -> "all-sends-failed" | EvDelivered -> "delivered" | EvDeliverFailed -> "deliver-failed"
  | EvDeleted r -> "deleted-" ^ dec_of_n r | EvReleased -> "released" | EvContraindicated -> "contraindicated"


let same_rep (m : rp_sreport) (o : rp_sreport) =
  m.rpr_pos = o.rpr_pos && m.rpr_reason = o.rpr_reason && m.rpr_flags = o.rpr_flags && m.rpr_src = o.rpr_src && m.rpr_dst = o.rpr_dst
  && m.rpr_life = o.rpr_life && m.sr_ref_src = o.sr_ref_src && m.sr_ref_time = o.sr_ref_time && m.sr_ref_seq = o.sr_ref_seq
  && m.sr_ref_frag = o.sr_ref_frag && (m.rpr_time <> None) = (o.rpr_time <> None)

let compare_reps ~ordered (model : rp_sreport list) (obs : obsrep orbad list) : verdict list =
  let obs_ok = List.filter_map (function Good o -> Some o.rep | Badrep _ -> None) obs in
  let show l = String.concat " " (List.map show_rep l) in
  let canon l = if ordered then l else List.sort compare (List.map (fun r -> { r with rpr_time = (match r.rpr_time with Some _ -> Some N0 | None -> None) }) l) in
  let m = canon model and o = canon obs_ok in
  if List.exists (function Good o -> o.codec_differs | Badrep _ -> false) obs then
    [Mismatch "a status report decodes differently with the implementation's decoder and with the model's"]
  else if List.length obs_ok <> List.length obs then [Mismatch "an observed report is not a well-shaped status report"]
  else if List.length m = List.length o && List.for_all2 same_rep m o then []
  else [Mismatch (Printf.sprintf "reports: model {%s} impl {%s}" (show model) (show obs_ok))]

(* evidence: reports about fragments (offset and total length on the wire), per kind *)
let frag_tags ?(suffix = "") (obs : obsrep orbad list) =
  uniq (List.filter_map (function
      | Good { rep = { sr_ref_frag = Some (o, t); rpr_pos; _ }; _ } when o <> t && o <> N0 && t <> N0 -> Some ("fragment-report-" ^ kind_name rpr_pos ^ suffix)
      | _ -> None) obs)

let model_gone evs =
  List.exists (function EvDeleted _ -> true | _ -> false) evs
  || (List.mem EvReleased evs && not (List.mem EvDeliverFailed evs))

let step = function
  | [env; kind; receiver; known; dump; now; age_add; dispatch_ok; load_ok; admin_ok; sends; delete_after;
     facts; in_store; reps; stray; tag] ->
    let env = env_of_s env in
    let b = D_bundle.bundle_of_dump dump in
    let now = s_n now in
    let inp = { i_kind = s_n kind; i_receiver = D_bundle.s_eid receiver; i_known = s_bool known; i_bundle = b; i_now = now;
                i_age_add = s_n age_add; i_dispatch_ok = s_bool dispatch_ok; i_load_ok = s_bool load_ok; i_admin_ok = s_bool admin_ok;
                i_sends = List.map s_bool (lst sends); i_delete_after = s_bool delete_after } in
    let facts = facts_of_s facts in
    let obs = List.map (rep_of_s now) (lst reps) in
    let items = rp_process env inp in
    let evs = rp_events items in
    let r = ref [] in
    (* the age decision must not hinge on the few microseconds the bundle spent in the node *)
    let items' = rp_process env { inp with i_age_add = N.add inp.i_age_add (n_of_int 2000000) } in
    if rp_events items' <> evs then [Ok_ ["skipped-age-margin"]] else begin
      (* correspondence: sends consumed, facts, store, reports *)
      let model_sends = List.filter_map (function EvSend ok -> Some ok | _ -> None) evs in
      if List.sort compare model_sends <> List.sort compare inp.i_sends then
        r := Mismatch (Printf.sprintf "model performs %d sends of the bundle, implementation %d" (List.length model_sends) (List.length inp.i_sends)) :: !r;
      let mf = rp_facts_of evs in
      let mdeleted = mf.fa_deleted in
      if mf.fa_received <> facts.fa_received then r := Mismatch "received: model and implementation differ" :: !r;
      if mf.fa_sent_ok <> facts.fa_sent_ok then r := Mismatch "some send succeeded: model and implementation differ" :: !r;
      if mf.fa_handed <> facts.fa_handed then r := Mismatch (Printf.sprintf "hand-over to an agent: model %b impl %b" mf.fa_handed facts.fa_handed) :: !r;
      if mdeleted <> facts.fa_deleted then r := Mismatch (Printf.sprintf "deleted: model %b impl %b" mdeleted facts.fa_deleted) :: !r;
      if not (List.mem EvDuplicate evs) && model_gone evs = s_bool in_store then
        r := Mismatch (Printf.sprintf "bundle in store afterwards: model %b impl %b" (not (model_gone evs)) (s_bool in_store)) :: !r;
      if s_int stray <> 0 then r := Mismatch "bundles other than the processed one and status reports were sent" :: !r;
      r := compare_reps ~ordered:true (rp_reports items) obs @ !r;
      (* property *)
      r := prop_checks env b facts obs @ !r;
      if !r = [] then
        [Ok_ (uniq (List.map ev_tag evs) @ [Printf.sprintf "reports=%d" (List.length obs); "case-" ^ D_bundle.str_of_bytes (s_bytes tag)]
              @ frag_tags obs
              @ (if List.length obs = 0 && has b.b_pri.p_flags f_ADMIN then ["silent-admin"] else [])
              @ (if List.length obs = 0 && rp_has_endpoint env b.b_pri.p_rpt then ["silent-report-to-local"] else [])
            @ [Printf.sprintf "listener-ids=%d" (min 4 (List.length env.rn_clas))]
            @ (let rpt = b.b_pri.p_rpt in
               (* report-to is an endpoint of the node only through the n-th registered listener ID *)
               if rp_has_endpoint env rpt && not (eid_same_node env.rn_node rpt) && not (rp_has_agent env rpt) then begin
                 let rec first i = function
                   | [] -> -1 | c :: l -> if rp_authority c = rp_authority rpt then i else first (i + 1) l in
                 let i = first 0 env.rn_clas in
                 [Printf.sprintf "report-to-listener-id-%s" (if i = 0 then "first" else if i = 1 then "second" else "later")]
               end else if rp_has_agent env rpt && not (eid_same_node env.rn_node rpt) then ["report-to-agent-endpoint-outside-node-name"]
               else []))]
      else !r
    end
  | _ -> raise (Bad "step case")

(* receive while nobody can take the bundle, then a peer appears: two passes of the model *)
let retry = function
  | [env; dump; t0; t1; load_ok; sends; facts; in_store; reps; stray; expire] ->
    let env = env_of_s env in
    let b = D_bundle.bundle_of_dump dump in
    let inp1 = { i_kind = N0; i_receiver = env.rn_node; i_known = false; i_bundle = b; i_now = s_n t0; i_age_add = N0;
                 i_dispatch_ok = false; i_load_ok = true; i_admin_ok = false; i_sends = []; i_delete_after = false } in
    let inp2 = { inp1 with i_kind = n_of_int 2; i_receiver = DtnNone; i_now = s_n t1; i_dispatch_ok = true; i_load_ok = s_bool load_ok;
                           i_sends = List.map s_bool (lst sends) } in
    let it1 = rp_process env inp1 and it2 = rp_process env inp2 in
    let evs = rp_events it1 @ rp_events it2 in
    let facts = facts_of_s facts in
    let obs = List.map (rep_of_s (s_n t0)) (lst reps) in
    let r = ref [] in
    let model_sends = List.filter_map (function EvSend ok -> Some ok | _ -> None) evs in
    if (s_bool load_ok) <> (not (s_bool expire)) then [Ok_ ["skipped-timing"]] else begin
      if List.length model_sends <> List.length inp2.i_sends then r := Mismatch "retry: number of sends" :: !r;
      if model_gone evs = s_bool in_store then r := Mismatch "retry: bundle in store afterwards" :: !r;
      if s_int stray <> 0 then r := Mismatch "retry: stray bundles sent" :: !r;
      r := compare_reps ~ordered:false (rp_reports it1 @ rp_reports it2) obs @ !r;
      r := prop_checks env b facts obs @ !r;
      if !r = [] then [Ok_ (uniq (List.map ev_tag evs) @ ["retry"; (if s_bool load_ok then "retry-loaded" else "retry-expired-in-store");
                                                       Printf.sprintf "reports=%d" (List.length obs)] @ frag_tags ~suffix:"-retry" obs)]
      else !r
    end
  | _ -> raise (Bad "retry case")

(* a status report created by this node that never left it: it was addressed to the node itself *)
let stray_report = function
  | [where; dst; ref_] ->
    [Propfail ("report.to-self", Printf.sprintf "a status report of this node about %s, addressed to %s, stayed on the node (%s)"
                 (D_bundle.str_of_bytes (s_bytes ref_)) (D_bundle.str_of_bytes (s_bytes dst)) (atom where))]
  | _ -> raise (Bad "stray-report case")
let stray_count = function
  | [k] -> if s_int k = 0 then [Ok_ ["no-report-stays-on-the-node"]] else [Mismatch "status reports stayed on the node"]
  | _ -> raise (Bad "stray-count case")

let () =
  register "C15report" "step" step;
  register "C15report" "retry" retry;
  register "C15report" "stray-report" stray_report;
  register "C15report" "stray-count" stray_count
