(* C07 (area Agents), generator C07routes: bundles for registered endpoints below and OUTSIDE the
   node's own name (group endpoints, other dtn authorities, ipn endpoints), through the whole
   delivery decision of the Core (DispatchingAllowed of every routing algorithm, HasEndpoint,
   localDelivery and its administrative-record check), with and without connected peers, received
   and submitted, with ordinary payloads and administrative records of every kind.

   Property checker (on the implementation's hand-overs alone): the bundle is handed to exactly the
   recipients registered for its destination, once each, unchanged; to nobody else; it is not
   transmitted.  The only payload-dependent exception is the one of the unchanged code: an
   administrative record the node cannot read (unknown record type, garbage) is deleted.
   The expected recipients are computed from the registration table of the case (exact match of
   the endpoint, as in the agent model of Agents.v); what the code does with an unreadable record
   (deleted, handed to nobody) is checked as correspondence (Mismatch), not as the property. *)
open Conv
open Sexp
open Verdict

let route fields =
  match fields with
  | [algo; ipn; peers; regs; dvs; errs] ->
    let algo = atom algo and ipn = s_bool ipn and peers = s_int peers in
    let res = ref [] and tags = ref [] in
    let tag t = if not (List.mem t !tags) then tags := t :: !tags in
    let fail v = if not (List.mem v !res) then res := v :: !res in
    let regs = List.map (fun r -> match lst r with
        | [l; k; cs] -> (s_int l, s_int k, List.map s_int (lst cs))
        | _ -> raise (Bad "reg")) (lst regs) in
    List.iter (fun e -> fail (Mismatch ("harness anomaly: " ^ atom e))) (lst errs);
    let cname c = (if ipn then [| "own-node"; "group"; "dtn-authority"; "other-ipn-node" |]
                   else [| "own-node"; "group"; "other-authority"; "ipn" |]).(c) in
    let kname = function 0 -> "mock" | 2 -> "rest" | 3 -> "ws" | _ -> "agent" in
    tag (Printf.sprintf "peers-%d" peers);
    if ipn then tag "ipn-node";
    List.iteri (fun i d -> match lst d with
        | [cls; pay; mask; submit; hs; nsend; known; pending] ->
          let cls = s_int cls and pay = s_int pay and mask = s_int mask and submit = s_bool submit in
          let hs = List.map (fun h -> match lst h with [l; c] -> (s_int l, s_int c) | _ -> raise (Bad "h")) (lst hs) in
          let nsend = s_int nsend and known = s_bool known and pending = s_bool pending in
          let what = match pay with
            | 0 -> "bundle" | 1 -> if mask = 0 then "status-report-without-assertion" else "status-report"
            | 2 -> "unknown-record-type" | _ -> "unreadable-record" in
          let where = Printf.sprintf "delivery %d (%s, %s for the %s endpoint, %s)" i algo what (cname cls)
              (if submit then "submitted" else "received") in
          let pf kind detail = fail (Propfail (Printf.sprintf "agents.route.%s.%s" kind (cname cls), where ^ ": " ^ detail)) in
          tag (cname cls); tag what; if submit then tag "submitted";
          let registered = List.filter (fun (_, _, cs) -> List.mem cls cs) regs in
          let readable = pay = 0 || pay = 1 in
          let expected = if readable then registered else [] in
          if not readable then tag "unreadable-record-deleted";
          (* ---- the property ---- *)
          List.iter (fun (l, k, _) ->
              match List.filter (fun (l', _) -> l' = l) hs with
              | [] -> pf (if pay = 0 then "not-handed-over" else "record-not-handed-over")
                        (Printf.sprintf "the registered %s recipient %d does not get the bundle (in the store: %b, pending: %b)" (kname k) l known pending)
              | [(_, 1)] -> tag ("handed-to-" ^ kname k)
              | [(_, _)] -> pf "altered" (Printf.sprintf "recipient %d gets different content" l)
              | _ -> pf "handed-over-twice" (Printf.sprintf "recipient %d gets the bundle more than once" l)) expected;
          List.iter (fun (l, _) ->
              if not (List.exists (fun (l', _, _) -> l' = l) registered) then
                pf "wrong-recipient" (Printf.sprintf "recipient %d is not registered for the destination and gets a bundle" l)) hs;
          if nsend > 0 then pf "transmitted" (Printf.sprintf "the bundle for a registered endpoint is transmitted to peers (%d times)" nsend);
          (* ---- the model's prediction of the rest ---- *)
          if not readable then begin
            if List.exists (fun (l, _) -> List.exists (fun (l', _, _) -> l' = l) registered) hs then
              fail (Mismatch (where ^ ": an unreadable administrative record is handed over (the model deletes it)"));
            if known then fail (Mismatch (where ^ ": an unreadable administrative record stays in the store"))
          end else if pending then fail (Mismatch (where ^ ": the bundle is still pending after its local delivery"))
        | _ -> raise (Bad "dv")) (lst dvs);
    if !res = [] then [Ok_ (algo :: List.rev !tags)] else List.rev !res
  | _ -> raise (Bad "route")

let () = register "C07routes" "route" route
