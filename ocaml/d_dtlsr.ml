(* C20 - DTLSR: driver glue.  Replays the observed histories through the extracted model
   (Model.dt_ functions), compares the projected state, and evaluates the property's own checkers on what
   the implementation produced: the Go routing table against dt_check_entries / dt_reachable_all
   (proved to decide optimal_first_hop / reachability: C20_checker_exact), the stored link-state
   records against "first arrival with the greatest timestamp", the forwarding decisions against
   "only the table's next hop, then released" / "broadcast once to every peer". *)
open Model
open Conv
open Sexp
open Verdict

let ni = n_of_int
let pair_of_s s = match lst s with [a; b] -> (s_n a, s_n b) | _ -> raise (Bad "pair")
let sort_pairs (l : (n * n) list) = List.sort (fun (a, _) (b, _) -> compare (int_of_n a) (int_of_n b)) l
let show_pairs l = String.concat "," (List.map (fun (a, b) -> dec_of_n a ^ ":" ^ dec_of_n b) l)
let show_ns l = String.concat "," (List.map dec_of_n l)

(* decimal strings without leading zeros: numeric comparison (values up to 2^64-1) *)
let dec_cmp (a : string) (b : string) =
  if String.length a <> String.length b then compare (String.length a) (String.length b) else compare a b

(* ------------------------------------------------------------------------------------------ *)
let sr = function
  | [a; b; res] ->
    let x = { pd_id = N0; pd_ts = s_n a; pd_peers = [] } and y = { pd_id = N0; pd_ts = s_n b; pd_peers = [] } in
    let res = s_bool res in
    let r = ref [] in
    if dt_should_replace x y <> res then r := Mismatch "ShouldReplace" :: !r;
    let c = dec_cmp (atom a) (atom b) in
    if res && c = 0 then r := Propfail ("dtlsr.replace.equal-timestamp", "ShouldReplace accepts a record with an equal timestamp") :: !r;
    if res && c < 0 then r := Propfail ("dtlsr.replace.older", "ShouldReplace accepts an older record") :: !r;
    if (not res) && c > 0 then r := Propfail ("dtlsr.replace.newer-rejected", "ShouldReplace rejects a newer record") :: !r;
    if !r = [] then [Ok_ ["sr"; (if c = 0 then "sr-equal" else if c < 0 then "sr-older" else "sr-newer")]] else !r
  | _ -> raise (Bad "sr case")

(* ------------------------------------------------------------------------------------------ *)
type snap = { s_own : (n * n) list; s_recv : dt_pd list; s_index : n list; s_table : (n * n) list;
              s_pc : bool; s_rc : bool; s_cons : bool }

let pd_of_s s = match lst s with
  | [id; ts; ps] -> { pd_id = s_n id; pd_ts = s_n ts; pd_peers = List.map pair_of_s (lst ps) }
  | _ -> raise (Bad "pd")
let snap_of_s s = match lst s with
  | [own; recv; idx; tbl; pc; rc; cons] ->
    { s_own = List.map pair_of_s (lst own); s_recv = List.map pd_of_s (lst recv); s_index = List.map s_n (lst idx);
      s_table = List.map pair_of_s (lst tbl); s_pc = s_bool pc; s_rc = s_bool rc; s_cons = s_bool cons }
  | _ -> raise (Bad "snapshot")

let canon_pd d = { d with pd_peers = sort_pairs d.pd_peers }
let canon_recv l = List.sort (fun a b -> compare (int_of_n a.pd_id) (int_of_n b.pd_id)) (List.map canon_pd l)
let show_pd d = Printf.sprintf "{%s@%s:%s}" (dec_of_n d.pd_id) (dec_of_n d.pd_ts) (show_pairs d.pd_peers)

let op_of_s base s = match lst s with
  | [Atom "notify"; id; ts; ps] -> DtNotify { pd_id = s_n id; pd_ts = s_n ts; pd_peers = List.map pair_of_s (lst ps) }
  | [Atom "appear"; p] -> DtAppear (s_n p, base)
  | [Atom "disappear"; p; t] -> DtDisappear (s_n p, s_n t)
  | [Atom "purge"; pt] -> DtPurge (base, s_n pt)
  | [Atom "compute"] -> DtCompute base
  | [Atom "cron"] -> DtCron base
  | _ -> raise (Bad "op")

let rec index_of (x : n) (l : n list) (i : int) = match l with
  | [] -> None
  | y :: r -> if y = x then Some i else index_of x r (i + 1)

(* The state the table is judged against is the implementation's own link-state data (own peers,
   receivedData) with its own node numbering; a node that a stored record mentions but that was
   given no number gets one here (on the unchanged code every such node has one), so that "the
   link-state graph known to the node" does not depend on a numbering mistake. *)
let state_of_snap (s : snap) : dt_state =
  let mentioned = List.concat_map (fun d -> d.pd_id :: List.map fst d.pd_peers) s.s_recv in
  let idx = List.fold_left (fun idx x -> if List.mem x idx then idx else idx @ [x]) s.s_index mentioned in
  { dt_self = N0; dt_own = s.s_own; dt_own_ts = N0; dt_recv = s.s_recv; dt_index = idx; dt_table = [];
    dt_peer_change = false; dt_recv_change = false }

(* validate a Go routing table against the graph of state st at time now; returns verdicts, tags *)
let validate_table (st : dt_state) (now : n) (tbl : (n * n) list) =
  let r = ref [] and tags = ref [] in
  let idx = st.dt_index in
  let nn = List.length idx in
  let g = dt_graph st now in
  let entries = List.map (fun (dest, hop) -> (dest, hop, index_of dest idx 0, index_of hop idx 0)) tbl in
  let good = List.filter_map (fun (_, _, d, h) -> match d, h with Some d, Some h -> Some (nat_of_int d, nat_of_int h) | _ -> None) entries in
  List.iter (fun (dest, hop, d, h) ->
      if d = None || h = None then
        r := Propfail ("dtlsr.table.unknown-node", Printf.sprintf "entry %s -> %s names a node without index" (dec_of_n dest) (dec_of_n hop)) :: !r)
    entries;
  let oks = dt_check_entries (nat_of_int nn) g good in
  List.iter2 (fun (d, h) ok ->
      if not ok then
        r := Propfail ("dtlsr.table.nonoptimal-hop",
                       Printf.sprintf "entry index %d -> %d is not the first hop of a loop-free least-cost path" (int_of_nat d) (int_of_nat h)) :: !r)
    good oks;
  (* the next hop is one of the node's own current or recently lost neighbours (C20_next_hop_is_neighbour;
     a stored record that claims the node's own ID is the modelled exception) *)
  let own_id_record = List.exists (fun d -> d.pd_id = st.dt_self) st.dt_recv in
  List.iter (fun (dest, hop, _, _) ->
      if not (List.mem_assoc hop st.dt_own) then begin
        if own_id_record then tags := "hop-via-own-id-record" :: !tags
        else r := Propfail ("dtlsr.table.hop-not-neighbour",
                            Printf.sprintf "entry %s -> %s: the next hop is not in the node's own peer list" (dec_of_n dest) (dec_of_n hop)) :: !r
      end)
    entries;
  let reach = dt_reachable_all (nat_of_int nn) g in
  List.iteri (fun d rb ->
      let has = List.exists (fun (_, _, dd, _) -> dd = Some d) entries in
      if d >= 1 then begin
        if rb && not has then r := Propfail ("dtlsr.table.missing", Printf.sprintf "reachable node index %d has no entry" d) :: !r;
        if (not rb) && has then r := Propfail ("dtlsr.table.spurious", Printf.sprintf "unreachable node index %d has an entry" d) :: !r;
        if not rb then tags := "some-unreachable" :: !tags
      end else if has then r := Propfail ("dtlsr.table.spurious", "entry for the node itself") :: !r)
    reach;
  (* more than one optimal first hop for some destination? (tie: the choice is the library's) *)
  let mt = dt_table_idx (nat_of_int nn) g in
  if List.exists (fun (d, h) -> List.exists (fun (d', h') -> d = d' && h <> h') good) mt then tags := "tie-other-choice" :: !tags;
  if List.exists (fun a -> arc_src a = O && arc_dst a = O) g then tags := "selfloop-noindex-peer" :: !tags;
  if List.exists (fun a -> arc_cost a <> Z0) g then tags := "lost-links" :: !tags;
  tags := Printf.sprintf "n=%d" nn :: !tags;
  (!r, List.sort_uniq compare !tags)

let compare_state (m : dt_state) (s : snap) =
  let r = ref [] in
  if sort_pairs m.dt_own <> sort_pairs s.s_own then
    r := Mismatch (Printf.sprintf "own peers: model [%s] impl [%s]" (show_pairs (sort_pairs m.dt_own)) (show_pairs (sort_pairs s.s_own))) :: !r;
  if canon_recv m.dt_recv <> canon_recv s.s_recv then
    r := Mismatch (Printf.sprintf "receivedData: model [%s] impl [%s]"
                     (String.concat " " (List.map show_pd (canon_recv m.dt_recv))) (String.concat " " (List.map show_pd (canon_recv s.s_recv)))) :: !r;
  if m.dt_index <> s.s_index then
    r := Mismatch (Printf.sprintf "indexNode: model [%s] impl [%s]" (show_ns m.dt_index) (show_ns s.s_index)) :: !r;
  if m.dt_peer_change <> s.s_pc || m.dt_recv_change <> s.s_rc then r := Mismatch "peerChange/receivedChange flags" :: !r;
  if not s.s_cons then r := Mismatch "nodeIndex / indexNode / length inconsistent" :: !r;
  !r

(* the property's own check of link-state replacement on the implementation's snapshots *)
let check_replace (arrivals : (n * dt_pd list) list) (s : snap) =
  let r = ref [] in
  List.iter (fun (id, arr) ->
      (* arr is in arrival order *)
      let best = List.fold_left (fun acc x -> match acc with
          | None -> Some x
          | Some y -> if dec_cmp (dec_of_n x.pd_ts) (dec_of_n y.pd_ts) > 0 then Some x else Some y) None arr in
      let stored = List.find_opt (fun d -> d.pd_id = id) s.s_recv in
      match best, stored with
      | None, None -> ()
      | Some b, Some st ->
        if canon_pd b <> canon_pd st then begin
          let c = dec_cmp (dec_of_n st.pd_ts) (dec_of_n b.pd_ts) in
          let key = if c = 0 then "dtlsr.replace.equal-timestamp" else "dtlsr.replace.not-newest" in
          r := Propfail (key, Printf.sprintf "stored %s, first arrival with the greatest timestamp is %s" (show_pd (canon_pd st)) (show_pd (canon_pd b))) :: !r
        end
      | Some b, None -> r := Propfail ("dtlsr.replace.lost", "no record stored for " ^ dec_of_n id) :: !r
      | None, Some _ -> r := Propfail ("dtlsr.replace.invented", "record stored for " ^ dec_of_n id ^ " without arrival") :: !r)
    arrivals;
  (* records for nodes that never sent one *)
  List.iter (fun d -> if not (List.mem_assoc d.pd_id arrivals) then
                r := Propfail ("dtlsr.replace.invented", "record stored for " ^ dec_of_n d.pd_id ^ " without arrival") :: !r) s.s_recv;
  !r

(* the node's own record about the neighbours it is connected to right now: present and live (value 0),
   whatever happened before (lost and come back, purged and come back) *)
let check_connected (connected : n list) (s : snap) =
  List.filter_map (fun p ->
      match List.assoc_opt p s.s_own with
      | Some t when t = N0 -> None
      | Some t -> Some (Propfail ("dtlsr.own.connected-neighbour-lost",
                                  Printf.sprintf "neighbour %s is connected, the node's own link state says lost at %s (link cost = time since then instead of 0)" (dec_of_n p) (dec_of_n t)))
      | None -> Some (Propfail ("dtlsr.own.connected-neighbour-missing",
                                Printf.sprintf "neighbour %s is connected but is not in the node's own peer list (purged while connected)" (dec_of_n p))))
    connected

(* the table against the graph in which the links to the connected neighbours cost 0 *)
let validate_connected (connected : n list) (s : snap) (now : n) =
  let own = List.fold_left (fun own p -> (p, N0) :: List.remove_assoc p own) s.s_own connected in
  let s' = { s with s_own = own; s_index = List.fold_left (fun idx p -> if List.mem p idx then idx else idx @ [p]) s.s_index connected } in
  let (vs, _) = validate_table (state_of_snap s') now s.s_table in
  List.sort_uniq compare (List.filter_map (function
      | Propfail (k, d) ->
        let k' = (match k with
            | "dtlsr.table.nonoptimal-hop" -> "dtlsr.table.connected.nonoptimal-hop"
            | "dtlsr.table.missing" -> "dtlsr.table.connected.missing"
            | _ -> "dtlsr.table.connected.other") in
        Some (Propfail (k', "with the links to the connected neighbours at cost 0: " ^ d))
      | _ -> None) vs)

let run = function
  | [label; base; ops; cps; flagok] ->
    let base = s_n base in
    let label = s_sym label in
    let ops = List.map (op_of_s base) (lst ops) in
    let cps = List.map (fun c -> match lst c with [k; s] -> (s_int k, snap_of_s s) | _ -> raise (Bad "checkpoint")) (lst cps) in
    let r = ref [] and tags = ref [label] in
    if not (s_bool flagok) then r := Mismatch "a real-time stamp written by appear/disappear was outside its bracket" :: !r;
    let st = ref (dt_init N0 N0) in
    let arrivals = ref [] in
    let prev_tbl = ref (Some (0, [])) in
    (* the neighbours connected right now: appeared and not disappeared since *)
    let connected : n list ref = ref [] in
    let purged : n list ref = ref [] in
    let neighbours = List.sort_uniq compare (List.filter_map (function DtAppear (p, _) -> Some p | _ -> None) ops) in
    let done_ops = ref [] in
    List.iteri (fun i op ->
        let k = i + 1 in
        let before = !st in
        st := dt_step !st op;
        (match op with
         | DtNotify d ->
           let cur = try List.assoc d.pd_id !arrivals with Not_found -> [] in
           arrivals := (d.pd_id, cur @ [d]) :: List.remove_assoc d.pd_id !arrivals;
           tags := (match dt_recv_get d.pd_id before.dt_recv with
               | None -> "notify-new"
               | Some old -> if dt_should_replace d old then "notify-replace" else if old.pd_ts = d.pd_ts then "notify-equal-kept" else "notify-older-kept") :: !tags;
           if d.pd_id = N0 then tags := "record-claims-own-id" :: !tags
         | DtAppear (p, _) ->
           tags := "appear" :: !tags;
           (match List.assoc_opt p before.dt_own with
            | Some t when t <> N0 -> tags := "reappear-before-purge" :: !tags
            | None when List.mem p !purged -> tags := "appear-again-after-purge" :: !tags
            | _ -> ());
           ()
         | DtDisappear (p, _) ->
           tags := (if dt_find_index p before.dt_index = None then "disappear-noindex" else "disappear") :: !tags
         | DtPurge _ ->
           tags := (if List.length !st.dt_own < List.length before.dt_own then "purge-removed" else "purge-none") :: !tags;
           List.iter (fun (p, _) -> if not (List.mem_assoc p !st.dt_own) then purged := p :: !purged) before.dt_own
         | _ -> ());
        (* "connected" as in theorem C20_connected_neighbour_live *)
        done_ops := op :: !done_ops;
        (match op with
         | DtAppear _ | DtDisappear _ -> connected := List.filter (fun p -> dt_connected (List.rev !done_ops) p) neighbours
         | _ -> ());
        let recomputed = match op with
          | DtCompute _ -> true
          | DtCron _ -> before.dt_peer_change || before.dt_recv_change
          | _ -> false in
        (match op with DtCron _ -> tags := (if recomputed then "cron-recompute" else "cron-skip") :: !tags | DtCompute _ -> tags := "compute" :: !tags | _ -> ());
        match List.assoc_opt k cps with
        | None -> prev_tbl := None
        | Some s ->
          let ms = compare_state !st s in
          r := ms @ !r;
          r := check_replace !arrivals s @ !r;
          let cvs = check_connected !connected s in
          r := cvs @ !r;
          if !connected <> [] then tags := "connected-neighbours-checked" :: !tags;
          if List.exists (fun (_, t) -> t <> N0) s.s_own && !connected <> [] then tags := "connected-and-lost-neighbours" :: !tags;
          (match op with DtPurge _ when !connected <> [] -> tags := "purge-with-connected" :: !tags | _ -> ());
          if recomputed then begin
            (* the property's check: the implementation's table against the implementation's own link state *)
            let (vs, tg) = validate_table (state_of_snap s) base s.s_table in
            r := vs @ !r; tags := tg @ !tags;
            (* ... and, when that link state misrepresents a connected neighbour, against the graph in which
               the links to the connected neighbours are live *)
            if cvs <> [] then r := validate_connected !connected s base @ !r;
            (* correspondence: the model's own table has the same destinations *)
            let keys l = List.sort_uniq compare (List.map (fun (d, _) -> int_of_n d) l) in
            if ms = [] && vs = [] && keys !st.dt_table <> keys s.s_table then r := Mismatch "table destinations differ from the model's" :: !r
          end else begin
            match !prev_tbl with
            | Some (pk, t) when pk = k - 1 -> if t <> s.s_table then r := Mismatch "routing table changed without recomputation" :: !r
            | _ -> ()
          end;
          prev_tbl := Some (k, s.s_table))
      ops;
    if !r = [] then [Ok_ (List.sort_uniq compare !tags)] else List.rev !r
  | _ -> raise (Bad "run case")

(* ------------------------------------------------------------------------------------------ *)
let sends_of_s s = List.map (fun e -> match lst e with [p; ok] -> (s_n p, s_bool ok) | _ -> raise (Bad "send")) (lst s)
let sorted_ns l = List.sort compare (List.map int_of_n l)
let bcast_dest = { dst_node = ni 99998; dst_bare = true }

let check_bcast what (peers : n list) (excluded : n list) (sends : n list) =
  let r = ref [] in
  let rec dups = function [] -> false | x :: t -> List.mem x t || dups t in
  if dups sends then r := Propfail ("dtlsr.forward.broadcast-twice", what ^ ": a peer was handed the bundle twice") :: !r;
  if List.exists (fun p -> List.mem p excluded) sends then
    r := Propfail ("dtlsr.forward.broadcast-repeat", what ^ ": handed to the previous node or to a peer that already had it") :: !r;
  if List.exists (fun p -> not (List.mem p excluded) && not (List.mem p sends)) peers then
    r := Propfail ("dtlsr.forward.broadcast-missed", what ^ ": a connected peer did not get the bundle") :: !r;
  if List.exists (fun p -> not (List.mem p peers)) sends then
    r := Mismatch (what ^ ": sent to a peer that is not connected") :: !r;
  !r

let fwd = function
  | [base; events] ->
    let base = s_n base in
    let r = ref [] and tags = ref ["fwd"] in
    let table = ref [] in
    let conn : n list ref = ref [] in
    let handed : (int * n list) list ref = ref [] in
    List.iter (fun ev -> match lst ev with
        | [Atom "bcast"; u; prev; peers; sends; pend] ->
          let peers = List.map s_n (lst peers) and sends = List.map fst (sends_of_s sends) and prev = s_n prev in
          let ((chosen, sent'), del) = dt_forward_select !table peers [prev] true bcast_dest in
          if sorted_ns chosen <> sorted_ns sends then
            r := Mismatch (Printf.sprintf "broadcast relay: model [%s] impl [%s]" (show_ns chosen) (show_ns sends)) :: !r;
          if del || not (s_bool pend) then r := Mismatch "broadcast bundle released" :: !r;
          r := check_bcast "relay" peers [prev] sends @ !r;
          handed := (s_int u, prev :: sends) :: !handed;
          tags := "bcast-relay" :: !tags
        | [Atom "bcast-again"; u; _; peers; sends] ->
          let peers = List.map s_n (lst peers) and sends = List.map fst (sends_of_s sends) in
          let had = try List.assoc (s_int u) !handed with Not_found -> [] in
          (match dt_bcast_run had [peers] with
           | [chosen] -> if sorted_ns chosen <> sorted_ns sends then
               r := Mismatch (Printf.sprintf "broadcast re-offer: model [%s] impl [%s]" (show_ns chosen) (show_ns sends)) :: !r
           | _ -> r := Mismatch "bcast_run" :: !r);
          r := check_bcast "re-offer" peers had sends @ !r;
          handed := (s_int u, had @ sends) :: List.remove_assoc (s_int u) !handed;
          tags := "bcast-reoffer" :: !tags
        | [Atom "down"; _] -> tags := "peer-down" :: !tags
        | [Atom "up-again"; _] -> tags := "peer-up-again" :: !tags
        | [Atom "conn"; peers] -> conn := List.map s_n (lst peers)
        | [Atom "table"; s] ->
          let s = snap_of_s s in
          table := s.s_table;
          let st = state_of_snap s in
          if not s.s_cons then r := Mismatch "nodeIndex / indexNode / length inconsistent" :: !r;
          let (vs, tg) = validate_table st base s.s_table in
          r := vs @ !r; tags := tg @ !tags;
          let cvs = check_connected !conn s in
          r := cvs @ !r;
          if cvs <> [] then r := validate_connected !conn s base @ !r
        | [Atom "table-own"; s] ->
          let s = snap_of_s s in
          (match List.find_opt (fun d -> d.pd_id = N0) s.s_recv with
           | None -> r := Mismatch "own broadcast was not stored as a record with the own ID" :: !r
           | Some d -> if sort_pairs d.pd_peers <> sort_pairs s.s_own then
               r := Mismatch "the stored own record differs from the own peer list" :: !r);
          let (vs, tg) = validate_table (state_of_snap s) base s.s_table in
          r := vs @ !r; tags := "table-with-own-record" :: tg @ !tags;
          let cvs = check_connected !conn s in
          r := cvs @ !r;
          if cvs <> [] then r := validate_connected !conn s base @ !r
        | [Atom "uni"; v; bare; peers; sends; pend] ->
          let peers = List.map s_n (lst peers) and sends = List.map fst (sends_of_s sends) in
          let v = s_n v and bare = s_bool bare and pend = s_bool pend in
          let ((chosen, _), del) = dt_forward_select !table peers [] false { dst_node = v; dst_bare = bare } in
          if sorted_ns chosen <> sorted_ns sends then
            r := Mismatch (Printf.sprintf "unicast to %s: model [%s] impl [%s]" (dec_of_n v) (show_ns chosen) (show_ns sends)) :: !r;
          if pend = del then r := Mismatch (Printf.sprintf "unicast to %s: pending=%b but model delete=%b" (dec_of_n v) pend del) :: !r;
          (* the property itself *)
          let direct = List.mem v peers in
          let hop = if bare then List.assoc_opt v !table else None in
          List.iter (fun p ->
              if not (p = v || (not direct && hop = Some p)) then
                r := Propfail ("dtlsr.forward.not-table-hop",
                               Printf.sprintf "bundle for %s handed to %s, table hop %s" (dec_of_n v) (dec_of_n p)
                                 (match hop with Some h -> dec_of_n h | None -> "none")) :: !r) sends;
          if (not direct) && List.length sends > 1 then r := Propfail ("dtlsr.forward.multiple", "unicast bundle handed to several peers") :: !r;
          if sends <> [] && pend then r := Propfail ("dtlsr.forward.not-released", "bundle still pending after it was handed to its next hop") :: !r;
          tags := (if direct then "uni-direct" else if chosen <> [] then "uni-table-hop"
                   else if hop <> None then "uni-hop-not-connected" else if bare then "uni-no-route" else "uni-service-endpoint") :: !tags
        | [Atom "own-bcast"; peers; sends; blockok] ->
          let peers = List.map s_n (lst peers) and sends = List.map fst (sends_of_s sends) in
          r := check_bcast "own broadcast" peers [] sends @ !r;
          if not (s_bool blockok) then r := Mismatch "own broadcast: DTLSR block differs from the own link state" :: !r;
          tags := "own-bcast" :: !tags
        | _ -> raise (Bad "fwd event")) (lst events);
    if !r = [] then [Ok_ (List.sort_uniq compare !tags)] else List.rev !r
  | _ -> raise (Bad "fwd case")

(* ------------------------------------------------------------------------------------------ *)
(* (case n conc ((id known base ((ts mark)...) stored)...)) : updates of one origin with distinct timestamps
   delivered by several goroutines at once.  NotifyNewBundle is one atomic step (dataMutex held from the
   look-up to the store), so whatever the schedule the result is that of some sequential arrival order, and
   by C20_replace_any_order every order keeps the record with the greatest timestamp. *)
let conc = function
  | [rounds] ->
    let r = ref [] and tags = ref ["conc"] in
    List.iter (fun rd -> match lst rd with
        | [id; known; base; del; stored] ->
          let id = s_n id and known = s_bool known and base = s_n base in
          let del = List.map (fun e -> match lst e with [ts; m] -> (s_n ts, s_n m) | _ -> raise (Bad "conc delivery")) (lst del) in
          let st0 = dt_init N0 N0 in
          let st0 = if known then dt_step st0 (DtNotify { pd_id = id; pd_ts = base; pd_peers = [(ni 900, N0)] }) else st0 in
          let stm = List.fold_left (fun st (ts, m) -> dt_step st (DtNotify { pd_id = id; pd_ts = ts; pd_peers = [(m, N0)] })) st0 del in
          let model = match dt_recv_get id stm.dt_recv with
            | Some d -> Some (d.pd_ts, (match d.pd_peers with (m, _) :: _ -> m | [] -> N0))
            | None -> None in
          let best = List.fold_left (fun acc (ts, m) -> match acc with
              | Some (t, _) when dec_cmp (dec_of_n ts) (dec_of_n t) <= 0 -> acc
              | _ -> Some (ts, m)) None del in
          tags := (if known then "conc-known-origin" else "conc-new-origin") :: Printf.sprintf "conc-k=%d" (List.length del) :: !tags;
          (match lst stored, best with
           | [], _ ->
             r := Propfail ("dtlsr.replace.concurrent.lost", Printf.sprintf "no record stored for %s after %d concurrent deliveries" (dec_of_n id) (List.length del)) :: !r
           | [ts; m; np], Some (bt, bm) ->
             let ts = s_n ts and m = s_n m and np = s_int np in
             let c = dec_cmp (dec_of_n ts) (dec_of_n bt) in
             if c < 0 then
               r := Propfail ("dtlsr.replace.concurrent.not-newest",
                              Printf.sprintf "origin %s: stored link-state data has timestamp %s although %s was delivered (concurrently): an older update replaced a newer one"
                                (dec_of_n id) (dec_of_n ts) (dec_of_n bt)) :: !r
             else if c > 0 then r := Propfail ("dtlsr.replace.invented", "stored timestamp was never delivered") :: !r
             else if m <> bm || np <> 2 then
               r := Propfail ("dtlsr.replace.concurrent.mixed-record", Printf.sprintf "origin %s: the stored record carries the newest timestamp but not the peer list delivered with it" (dec_of_n id)) :: !r
             else if model <> Some (ts, m) then r := Mismatch "concurrent deliveries: model keeps another record" :: !r
           | _ -> raise (Bad "conc stored"))
        | _ -> raise (Bad "conc round")) (lst rounds);
    if !r = [] then [Ok_ (List.sort_uniq compare !tags)] else List.sort_uniq compare !r
  | _ -> raise (Bad "conc case")

let skipped = function _ -> [Ok_ ["skipped-slow"]]

let () =
  register "C20dtlsr" "sr" sr;
  register "C20dtlsr" "run" run;
  register "C20dtlsr" "skipped" skipped;
  register "C20conc" "conc" conc;
  register "C20fwd" "fwd" fwd;
  register "C20fwd" "skipped" skipped
