open Model
open Conv
open Sexp
open Verdict

(* C01state: the round trip of C01 on a codec that is not in its initial state (after failed
   serialisations) and not alone (goroutines serialising / parsing their own bundles).
   The file name sorts after d_bundle.ml / d_crcstate.ml (glob order of build.sh).

   A "ref" case is a C01parse "valid" case (fields: now bytes obs dump valid) and is judged by
   D_bundle.parse_case: model decoder and encoder against the implementation, and the round trip
   property on the implementation's own output.  The outputs of the scenarios are judged the same way
   (prefix of the key says where) and, in addition, against the reference encoding. *)

let rekey (pfx : string) (vs : verdict list) : verdict list =
  List.map (function
      | Propfail (k, d) ->
        let k' = if String.length k > 6 && String.sub k 0 6 = "codec." then "codec." ^ pfx ^ "." ^ String.sub k 6 (String.length k - 6) else pfx ^ "." ^ k in
        Propfail (k', d)
      | v -> v) vs

let only_failures (vs : verdict list) = List.filter (function Ok_ _ -> false | _ -> true) vs

let h_ref fields =
  match fields with
  | [_; _; _; _; _] -> D_bundle.parse_case "valid" fields
  | _ -> raise (Bad "ref case")

let blocks_of_dump s = match lst s with [Atom "b"; _; bl] -> lst bl | _ -> raise (Bad "bundle dump")
let primary_of_dump s = match lst s with [Atom "b"; p; _] -> p | _ -> raise (Bad "bundle dump")

(* what differs between the bundle that was serialised and the one the bytes parse to *)
let describe_diff (orig : Sexp.t) (got : Sexp.t) : string =
  let trunc s = if String.length s > 160 then String.sub s 0 160 ^ "..." else s in
  if Sexp.to_string (primary_of_dump orig) <> Sexp.to_string (primary_of_dump got) then "the primary block differs"
  else begin
    let bo = blocks_of_dump orig and bg = blocks_of_dump got in
    if List.length bo <> List.length bg then Printf.sprintf "%d blocks instead of %d" (List.length bg) (List.length bo)
    else begin
      let r = ref "" in
      List.iter2 (fun a b ->
          if !r = "" && Sexp.to_string a <> Sexp.to_string b then
            r := Printf.sprintf "block %s was serialised, %s is parsed" (trunc (Sexp.to_string a)) (trunc (Sexp.to_string b))) bo bg;
      !r
    end
  end

let obs_accepted obs = match lst obs with Atom "ok" :: _ -> true | _ -> false
let obs_dump obs = match lst obs with Atom "ok" :: d :: _ -> Some d | _ -> None

(* an output of the serialiser for the bundle [dump] whose reference encoding is [refb]:
   the property and the model on it *)
let judge_output (pfx : string) (now : Sexp.t) (dump : Sexp.t) (refb : Sexp.t) (outb : Sexp.t) (obs : Sexp.t) : verdict list =
  let r = ref [] in
  let b = D_bundle.bundle_of_dump dump in
  let multi = D_bundle.has_multi_map b in
  (* round trip, model decoder / encoder on the output *)
  r := rekey pfx (only_failures (D_bundle.parse_case "valid" [now; outb; obs; dump; Atom "1"]));
  (* say what differs *)
  r := List.map (function
      | Propfail (k, d) when k = "codec." ^ pfx ^ ".roundtrip.differs" ->
        (match obs_dump obs with Some g -> Propfail (k, d ^ ": " ^ describe_diff dump g) | None -> Propfail (k, d))
      | v -> v) !r;
  if atom outb <> atom refb then begin
    match obs_dump obs with
    | Some d when Sexp.to_string d = Sexp.to_string dump ->
      if not multi then
        r := Propfail ("codec." ^ pfx ^ ".not-deterministic", "the same bundle is serialised to different bytes (no block with several map entries)") :: !r
    | Some d ->
      (* already reported as roundtrip.differs by parse_case; add what differs *)
      r := Propfail ("codec." ^ pfx ^ ".output-differs", "the output differs from the encoding produced alone: " ^ describe_diff dump d) :: !r
    | None ->
      r := Propfail ("codec." ^ pfx ^ ".output-differs", "the output differs from the encoding produced alone and is rejected by the parser") :: !r
  end;
  (* the model's encoder on the bundle itself (deterministic by construction) *)
  (match enc_bundle b with
   | Some e -> if not multi && hex_of_bytes e <> atom outb && atom outb = atom refb then r := Mismatch "model encodes the bundle differently" :: !r
   | None -> r := Mismatch "model cannot encode the bundle" :: !r);
  !r

let h_ser = function
  | [now; fails; _ni; via; dump; _valid; refb; werr; wpn; outb; obs] ->
    let r = ref [] in
    let nfail = List.length (lst fails) in
    let kinds = ref [] in
    List.iter (fun f -> match lst f with
        | [kind; _v; _lim; _via; _partial; failed; pn; prefix] ->
          let kind = s_sym kind in
          if not (List.mem kind !kinds) then kinds := kind :: !kinds;
          if s_bool pn then r := Propfail ("codec.after-failure.panic-on-failing-write", "a serialisation that had to fail panicked") :: !r
          else if not (s_bool failed) then
            r := (if kind = "parse" then Propfail ("codec.after-failure.truncated-accepted", "a proper prefix of a bundle's encoding is accepted")
                  else Propfail ("codec.after-failure.error-swallowed",
                                 (if kind = "writer" then "serialisation into a failing writer reported success"
                                  else "serialisation of a bundle with an unencodable block reported success"))) :: !r;
          if not (s_bool prefix) then r := Mismatch "bytes written before the failure are not a prefix of the encoding" :: !r
        | _ -> raise (Bad "fail entry")) (lst fails);
    if s_bool wpn then r := Propfail ("codec.after-failure.panic", "serialisation panicked") :: !r
    else if not (s_bool werr) then r := Propfail ("codec.after-failure.serialise-fails", "serialisation into a healthy writer fails after a failed one") :: !r
    else r := judge_output "after-failure" now dump refb outb obs @ !r;
    if !r = [] then [Ok_ (["ser"; Printf.sprintf "fails=%d" nfail; "via=" ^ atom via] @ List.map (fun k -> "fail-" ^ k) !kinds)] else !r
  | _ -> raise (Bad "ser case")

let h_conc = function
  | [now; g; sers; dump; refb; wrongs; ser_errs; panics; parse_rej; parse_diff; diff_dump] ->
    let r = ref [] in
    let b = D_bundle.bundle_of_dump dump in
    (* the reference is what the model's encoder writes *)
    (match enc_bundle b with
     | Some e -> if not (D_bundle.has_multi_map b) && hex_of_bytes e <> atom refb then r := Mismatch "model encodes the bundle differently" :: !r
     | None -> r := Mismatch "model cannot encode the bundle" :: !r);
    List.iter (fun w -> match lst w with
        | [out; count; obs] ->
          let vs = judge_output "concurrent" now dump refb out obs in
          let vs = if vs = [] then [Propfail ("codec.concurrent.output-differs", "output differs from the one produced alone")] else vs in
          r := List.map (function Propfail (k, d) -> Propfail (k, atom count ^ " time(s): " ^ d) | v -> v) vs @ !r
        | _ -> raise (Bad "wrong entry")) (lst wrongs);
    if s_int ser_errs > 0 then r := Propfail ("codec.concurrent.serialiser-error", Printf.sprintf "%d of %d serialisations failed" (s_int ser_errs) (s_int sers)) :: !r;
    if s_int panics > 0 then r := Propfail ("codec.concurrent.panic", Printf.sprintf "%d panics" (s_int panics)) :: !r;
    if s_int parse_rej > 0 then
      r := Propfail ("codec.concurrent.intact-rejected", Printf.sprintf "the bundle's own encoding was rejected %d of %d times" (s_int parse_rej) (s_int sers)) :: !r;
    if s_int parse_diff > 0 then begin
      let what = match lst diff_dump with [d] -> describe_diff dump d | _ -> "" in
      r := Propfail ("codec.concurrent.parse-differs",
                     Printf.sprintf "the bundle's own encoding parsed to a different bundle %d of %d times: %s" (s_int parse_diff) (s_int sers) what) :: !r
    end;
    if !r = [] then [Ok_ ["conc"; "g=" ^ atom g; (if D_bundle.has_multi_map b then "multi-map" else "fixed-order")]] else !r
  | _ -> raise (Bad "conc case")

(* two bundles behind each other on one reader, delivered in pieces *)
let h_rd = function
  | [now; stream; a; b; plain; nmodes; devs] ->
    let r = ref [] in
    let total = List.length (s_bytes stream) in
    let want = List.map (fun x -> match lst x with [d; e] -> (d, s_int e) | _ -> raise (Bad "rd bundle")) [a; b] in
    (* from a bytes.Reader: the bundles written, each leaving the reader right behind its encoding *)
    List.iteri (fun i ((d, e), got) ->
        match lst got with
        | [Atom "ok"; d'; off] ->
          if Sexp.to_string d' <> Sexp.to_string d then
            r := Propfail ("codec.stream.misaligned", Printf.sprintf "bundle %d of the stream parses to a different bundle: %s" i (describe_diff d d')) :: !r
          else if s_int off <> e then
            r := Propfail ("codec.stream.misaligned", Printf.sprintf "bundle %d ends at offset %d of the stream, the parser leaves the reader at %d" i e (s_int off)) :: !r
        | [Atom "panic"] -> r := Propfail ("codec.parser.panic", "ParseBundle panicked") :: !r
        | _ -> r := Propfail ("codec.stream.misaligned", Printf.sprintf "bundle %d of the stream is rejected" i) :: !r)
      (List.combine want (lst plain));
    (* the model on the same bytes *)
    (* Model/BundleStream.v dec_bundles (theorem C01_stream): two reads from one stream; the first bundle's end
       offset is re-derived from a one-bundle read of the same model function *)
    (match dec_bundles (s_n now) (S (S O)) (s_bytes stream) with
     | Some ([b1; b2], rest) ->
       let end1 = (match dec_bundles (s_n now) (S O) (s_bytes stream) with Some ([_], r1) -> total - List.length r1 | _ -> -1) in
       if D_bundle.dump_bundle b1 <> Sexp.to_string (fst (List.nth want 0)) || end1 <> snd (List.nth want 0) then
         r := Mismatch "model reads the first bundle of the stream differently" :: !r
       else if rest <> [] then r := Mismatch "model does not consume the stream with the second bundle" :: !r
       else if D_bundle.dump_bundle b2 <> Sexp.to_string (fst (List.nth want 1)) then
         r := Mismatch "model reads the second bundle of the stream differently" :: !r
     | _ -> r := Mismatch "model rejects the stream" :: !r);
    List.iter (fun d -> match lst d with
        | [mode; res] ->
          let name = (match lst mode with Atom n :: _ -> n | _ -> "?") in
          let s = Sexp.to_string res in
          let show = (match lst res with
              | [x; y] ->
                let one i w g = (match lst g with
                    | [Atom "ok"; d'; off] ->
                      if Sexp.to_string d' <> Sexp.to_string (fst w) then Printf.sprintf "bundle %d differs (%s)" i (describe_diff (fst w) d')
                      else Printf.sprintf "bundle %d read up to offset %s (ends at %d)" i (atom off) (snd w)
                    | _ -> Printf.sprintf "bundle %d: %s" i (Sexp.to_string g)) in
                one 0 (List.nth want 0) x ^ "; " ^ one 1 (List.nth want 1) y
              | _ -> if String.length s > 200 then String.sub s 0 200 else s) in
          r := Propfail ("codec.chunked-reader." ^ name, Printf.sprintf "through reader %s: %s" (Sexp.to_string mode) show) :: !r
        | _ -> raise (Bad "deviation")) (lst devs);
    if !r = [] then [Ok_ ["rd"; Printf.sprintf "readers>=%d" (s_int nmodes / 100 * 100)]] else !r
  | _ -> raise (Bad "rd case")

let h_reent = function
  | [now; before; via; ninner; dump_a; ref_a; werr; wpn; out; obs; dump_b; ref_b; inners] ->
    let r = ref [] in
    let how = if s_bool before then "before" else "after" in
    let note vs = List.map (function
        | Propfail (k, d) -> Propfail (k, Printf.sprintf "the writer serialises another bundle %s it takes the bytes of a Write: %s" how d)
        | v -> v) vs in
    if s_bool wpn then r := Propfail ("codec.reentrant.panic", "serialisation panicked") :: !r
    else if not (s_bool werr) then r := Propfail ("codec.reentrant.serialise-fails", "serialisation fails when the writer serialises another bundle") :: !r
    else r := note (judge_output "reentrant" now dump_a ref_a out obs);
    List.iter (fun i -> match lst i with
        | [o; iobs] ->
          if atom o = "x6572726f72" then r := Propfail ("codec.reentrant.serialise-fails", "a serialisation inside the Write of another one fails") :: !r
          else begin
            let vs = judge_output "reentrant" now dump_b ref_b o iobs in
            let vs = if vs = [] then [Propfail ("codec.reentrant.output-differs", "output differs from the one produced alone")] else vs in
            r := List.map (function
                | Propfail (k, d) -> Propfail (k, "bundle serialised inside the Write of another serialisation: " ^ d)
                | v -> v) vs @ !r
          end
        | _ -> raise (Bad "inner entry")) (lst inners);
    if !r = [] then [Ok_ ["reent"; how; "via=" ^ atom via; Printf.sprintf "writes>=%d" (s_int ninner / 50 * 50)]] else !r
  | _ -> raise (Bad "reent case")

let () =
  register "C01state" "reent" h_reent;
  register "C01state" "rd" h_rd;
  register "C01state" "ref" h_ref;
  register "C01state" "encfail" (fun _ -> [Propfail ("codec.roundtrip.unserialisable", "a valid bundle cannot be serialised")]);
  register "C01state" "ser" h_ser;
  register "C01state" "conc" h_conc
