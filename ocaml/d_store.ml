(* C08: the sbundle store.  Replays the cases of harness/store.go through the extracted model
   (Model/Store.v): the concrete micro-step model (index x files) for the correspondence, the
   reference map [spec_apply] / [spec_result] as the property's own checker. *)
open Model
open Conv
open Sexp
open Verdict

(* ---------- universe, decoder ---------- *)
let bundle_of_s s = match lst s with
  | [k; fr; off; tot; pl; ex; raw] ->
    { b_id = s_n k; b_frag = s_bool fr; b_off = s_n off; b_total = s_n tot; b_plen = s_n pl; b_exp = s_z ex; b_bytes = s_bytes raw }
  | _ -> raise (Bad "sbundle")

let rec is_prefix (p : n list) (l : n list) = match p, l with
  | [], _ -> true
  | x :: p', y :: l' -> x = y && is_prefix p' l'
  | _ :: _, [] -> false

type env = { u : sbundle array; now : z; idx : (string, int) Hashtbl.t }

let mk_env us now =
  let u = Array.of_list (List.map bundle_of_s (lst us)) in
  let idx = Hashtbl.create 64 in
  Array.iteri (fun i b -> Hashtbl.replace idx (hex_of_bytes b.b_bytes) i) u;
  { u; now = s_z now; idx }

(* the sbundle's own lifetime is not exceeded (IsLifetimeExceeded: now.After (creation + lifetime)) *)
let live e (b : sbundle) = Z.leb e.now b.b_exp
(* ParseBundle on a file: the universe is a prefix code, the first sbundle whose serialisation is a
   prefix of the content is what the parser reads; CheckValid then refuses it when its lifetime is over *)
let dec e (content : n list) : sbundle option =
  let r = ref None in
  Array.iter (fun b -> if !r = None && is_prefix b.b_bytes content then r := Some b) e.u;
  match !r with Some b when live e b -> Some b | _ -> None

let uidx e (b : sbundle) = match Hashtbl.find_opt e.idx (hex_of_bytes b.b_bytes) with Some i -> i | None -> -1

(* ---------- canonical records ---------- *)
type data = DErr | DIdx of int | DRaw of string
type orec = { ok : int; opend : bool; oexp : string; ofrag : bool; oprops : int; oparts : (int * int * data) list }

let data_of_s s = match s with
  | Atom "err" -> DErr
  | Atom a when String.length a > 0 && a.[0] = 'x' -> DRaw a
  | Atom a -> DIdx (int_of_string a)
  | _ -> raise (Bad "data")
let orec_of_s s = match lst s with
  | [k; r] ->
    (match lst r with
     | [pe; ex; fr; tag; parts] ->
       { ok = s_int k; opend = s_bool pe; oexp = atom ex; ofrag = s_bool fr; oprops = s_int tag;
         oparts = List.sort compare (List.map (fun p -> match lst p with
             | [o; t; d] -> (s_int o, s_int t, data_of_s d) | _ -> raise (Bad "part")) (lst parts)) }
     | _ -> raise (Bad "rec"))
  | _ -> raise (Bad "keyed rec")
let orec_of_arec e (k : n) (r : arec) =
  { ok = int_of_n k; opend = r.a_pending; oexp = dec_of_z r.a_exp; ofrag = r.a_frag; oprops = int_of_n r.a_props;
    oparts = List.sort compare (List.map (fun p ->
        (int_of_n p.ap_off, int_of_n p.ap_total, (match p.ap_data with Some b -> DIdx (uidx e b) | None -> DErr))) r.a_parts) }
let canon_map e (a : (n * arec) list) = List.sort compare (List.map (fun (k, r) -> orec_of_arec e k r) a)

let show_data = function DErr -> "err" | DIdx i -> string_of_int i | DRaw s -> s
let show_orec r =
  Printf.sprintf "(%d p=%b exp=%s frag=%b tag=%d [%s])" r.ok r.opend r.oexp r.ofrag r.oprops
    (String.concat " " (List.map (fun (o, t, d) -> Printf.sprintf "%d/%d:%s" o t (show_data d)) r.oparts))
let show_map m = String.concat " " (List.map show_orec m)

let pt (o, t, _) = (o, t)
(* first difference between an observed record and the reference record, as a failure class *)
let rec_diff (obs : orec) (sp : orec) : string option =
  let op = List.map pt obs.oparts and spp = List.map pt sp.oparts in
  if obs.ofrag <> sp.ofrag then Some "store.record.fragmented-flag"
  else if List.exists (fun x -> not (List.mem x op)) spp then Some "store.fragment.lost-part"
  else if List.length op <> List.length (List.sort_uniq compare op) then Some "store.fragment.duplicate-part"
  else if List.exists (fun x -> not (List.mem x spp)) op then Some "store.fragment.extra-part"
  else if obs.oparts <> sp.oparts then Some "store.readback.differs"
  else if obs.opend <> sp.opend then Some "store.update.pending"
  else if obs.oprops <> sp.oprops then Some "store.update.properties"
  else if obs.oexp <> sp.oexp then Some "store.update.expiry"
  else None
let map_diff (obs : orec list) (sp : orec list) : (string * string) option =
  let find k m = List.find_opt (fun r -> r.ok = k) m in
  let r = ref None in
  List.iter (fun s -> if !r = None then match find s.ok obs with
      | None -> r := Some ("store.lookup.lost-record", show_orec s)
      | Some o -> (match rec_diff o s with Some c -> r := Some (c, "observed " ^ show_orec o ^ " reference " ^ show_orec s) | None -> ())) sp;
  List.iter (fun o -> if !r = None && find o.ok sp = None then r := Some ("store.lookup.ghost-record", show_orec o)) obs;
  !r

(* files: (k frag off total) lists *)
let files_of_s s = List.sort compare (List.map (fun f -> match lst f with
    | [k; fr; o; t] -> (s_int k, s_bool fr, s_int o, s_int t) | _ -> raise (Bad "file")) (lst s))
let files_of_model (c : cstate) =
  List.sort compare (List.map (fun (f, _) -> (int_of_n f.f_id, f.f_frag, int_of_n f.f_off, int_of_n f.f_total)) c.c_files)
let dump_of_s s = match lst s with
  | [recs; files] -> (List.sort compare (List.map orec_of_s (lst recs)), files_of_s files)
  | _ -> raise (Bad "dump")

(* ---------- operations ---------- *)
(* an operation that names a record may carry the universe index of the bundle whose ID it was
   addressed with (the scrubbed ID of the whole bundle when absent).  Every ID of a bundle of key k
   denotes record k: the model's operation - and so the demanded effect - is the same whichever is used. *)
let via_of_s e s : sbundle option = match lst s with
  | [Atom ("del" | "qid" | "knows" | "complete"); k; v] | [Atom "upd"; k; _; _; _; v] ->
    let b = e.u.(s_int v) in
    if b.b_id <> s_n k then raise (Bad "via: bundle of another key");
    Some b
  | _ -> None
let strip_via s = match lst s with
  | [(Atom ("del" | "qid" | "knows" | "complete") as a); k; _] -> List [a; k]
  | [(Atom "upd" as a); k; pe; pr; ex; _] -> List [a; k; pe; pr; ex]
  | _ -> s
let via_tag e s = match via_of_s e s with
  | None -> []
  | Some b -> [(match lst s with Atom a :: _ -> a | _ -> "op") ^ (if b.b_frag then "-by-fragment-id" else "-by-whole-bundle-id")]
let by_fragment_id e s = match via_of_s e s with Some b -> b.b_frag | None -> false

let op_of_s e s = match lst (strip_via s) with
  | [Atom "push"; i] -> OPush e.u.(s_int i)
  | [Atom "upd"; k; pe; pr; ex] -> OUpdate (s_n k, s_bool pe, s_n pr, s_z ex)
  | [Atom "del"; k] -> ODelete (s_n k)
  | [Atom "sweep"; now] -> OSweep (s_z now)
  | [Atom "qid"; k] -> OQueryId (s_n k)
  | [Atom "qpend"] -> OQueryPending
  | [Atom "knows"; k] -> OKnows (s_n k)
  | [Atom "complete"; k] -> OComplete (s_n k)
  | [Atom "reopen"] -> OReopen
  | _ -> raise (Bad "op")

type ores = OUnit of bool | ORec of orec option | ORecs of orec list | OBool of bool | OOptBool of bool option | OBad
let ores_of_s s = match lst s with
  | [Atom "unit"; b] -> OUnit (s_bool b)
  | [Atom "rec"; Atom "none"] -> ORec None
  | [Atom "rec"; r] -> ORec (Some (orec_of_s r))
  | [Atom "recs"; Atom "err"] -> OBad
  | [Atom "recs"; l] -> ORecs (List.sort compare (List.map orec_of_s (lst l)))
  | [Atom "bool"; b] -> OBool (s_bool b)
  | [Atom "optbool"; Atom "none"] -> OOptBool None
  | [Atom "optbool"; b] -> OOptBool (Some (s_bool b))
  | _ -> raise (Bad "result")
let ores_of_result e (k : n) = function
  | RUnit b -> OUnit b
  | RRec None -> ORec None
  | RRec (Some r) -> ORec (Some (orec_of_arec e k r))
  | RRecs l -> ORecs (canon_map e l)
  | RBool b -> OBool b
  | ROptBool o -> OOptBool o
let op_key = function
  | OPush b -> b.b_id | OUpdate (k, _, _, _) -> k | ODelete k -> k | OQueryId k -> k | OKnows k -> k | OComplete k -> k
  | _ -> N0

(* the property's own notion of "complete": every position below the total lies in some part
   (brute force over positions, from the observed record alone) *)
let covers e (r : orec) : bool =
  if not r.ofrag then true
  else if List.exists (fun (_, _, d) -> match d with DIdx i -> i < 0 | _ -> true) r.oparts then false
  else
    let bs = List.map (fun (_, _, d) -> match d with DIdx i -> e.u.(i) | _ -> raise (Bad "covers")) r.oparts in
    match bs with
    | [] -> false
    | b0 :: _ ->
      let total = int_of_n b0.b_total in
      List.for_all (fun b -> b.b_frag && int_of_n b.b_total = total && int_of_n b.b_off + int_of_n b.b_plen <= total) bs
      && (let okk = ref true in
          for x = 0 to total - 1 do
            if not (List.exists (fun b -> int_of_n b.b_off <= x && x < int_of_n b.b_off + int_of_n b.b_plen) bs) then okk := false
          done; !okk)

let push_tag (a : (n * arec) list) (b : sbundle) =
  match ilookup b.b_id a with
  | None -> if b.b_frag then "push-first-fragment" else "push-new-sbundle"
  | Some r ->
    if not b.b_frag then (if r.a_frag then "push-whole-over-fragments-ignored" else "push-known-ignored")
    else if not r.a_frag then "push-fragment-of-stored-whole-ignored"
    else if List.exists (fun p -> p.ap_off = b.b_off && p.ap_total = b.b_total) r.a_parts then "push-known-fragment-ignored"
    else "push-further-fragment"

(* ---------- seq ---------- *)
let seq = function
  | [us; now; steps] ->
    let e = mk_env us now in
    let d = dec e and lv = live e in
    let c = ref store_init and a = ref [] in
    let out = ref [] and tags = ref [] in
    let add v = out := v :: !out in
    let tag t = if not (List.mem t !tags) then tags := t :: !tags in
    List.iteri (fun i st ->
        match lst st with
        | [ops; ress; dumps] ->
          let o = op_of_s e ops in
          let obs = ores_of_s ress in
          let byf = by_fragment_id e ops in
          List.iter tag (via_tag e ops);
          let where = Printf.sprintf "step %d %s%s: " i (Sexp.to_string ops)
              (match via_of_s e ops with
               | Some b when b.b_frag -> Printf.sprintf " [addressed by the ID of fragment %s/%s]" (dec_of_n b.b_off) (dec_of_n b.b_total)
               | _ -> "") in
          (* the property's checker: the reference map *)
          let sres = ores_of_result e (op_key o) (spec_result !a o) in
          let mres = ores_of_result e (op_key o) (op_result d !c o) in
          if mres <> sres then add (Mismatch (where ^ "internal: model result differs from reference map"));
          (match o with
           | OPush b -> tag (push_tag !a b); if not (lv b) then tag "push-lifetime-exceeded"
           | OUpdate _ -> tag (if sres = OUnit true then "update-hit" else "update-miss")
           | ODelete k -> tag (if ilookup k !a = None then "delete-miss" else "delete-hit")
           | OSweep nw -> tag (Printf.sprintf "sweep-%d-expired" (min 3 (List.length (expired_keys (fun r -> r.a_exp) !a nw))))
           | OQueryId _ -> tag (if sres = ORec None then "qid-miss" else "qid-hit")
           | OQueryPending -> tag (match sres with ORecs l -> Printf.sprintf "qpend-%d" (min 3 (List.length l)) | _ -> "qpend")
           | OKnows _ -> tag "knows"
           | OComplete _ -> tag (match sres with OOptBool (Some true) -> "complete-true" | OOptBool (Some false) -> "complete-false" | _ -> "complete-miss")
           | OReopen -> tag "reopen");
          if obs <> sres then begin
            let key = match o with
              | OQueryId _ -> "store.query.id" | OQueryPending -> "store.query.pending" | OKnows _ -> "store.query.knows"
              | OComplete _ -> "store.complete.wrong" | _ -> "store.op.error" in
            let key = if byf then key ^ ".by-fragment-id" else key in
            add (Propfail (key, where ^ "implementation answers differently from the reference map"))
          end;
          (* complete <-> covering, judged on the observed record alone *)
          (match o, obs with
           | OComplete k, OOptBool (Some cpl) ->
             (match List.find_opt (fun r -> r.ok = int_of_n k) (fst (dump_of_s dumps)) with
              | Some r ->
                let cv = covers e r in
                if cv <> cpl then
                  add (Propfail ((if cv then "store.complete.covering-set-incomplete" else "store.complete.gap-reported-complete"),
                                 where ^ "IsComplete=" ^ string_of_bool cpl ^ " but covering=" ^ string_of_bool cv ^ " " ^ show_orec r));
                if r.ofrag && List.length r.oparts > 1 then tag "complete-multipart";
                if r.ofrag && List.length r.oparts = 1 then
                  tag (if cv then (match r.oparts with [(_, 0, _)] -> "complete-lone-fragment-of-empty-payload" | _ -> "complete-lone-covering-fragment")
                       else "complete-lone-partial-fragment")
              | None -> ())
           | _ -> ());
          (* advance *)
          c := apply_op !c o;
          a := spec_apply lv !a o;
          let (orecs, ofiles) = dump_of_s dumps in
          let sm = canon_map e !a in
          if canon_map e (abs d !c) <> sm then add (Mismatch (where ^ "internal: model state differs from reference map"));
          (match map_diff orecs sm with
           | Some (key, det) ->
             let key = (match o with ODelete _ | OUpdate _ when byf -> key ^ ".by-fragment-id" | _ -> key) in
             add (Propfail (key, where ^ det))
           | None -> ());
          if ofiles <> files_of_model !c then add (Mismatch (where ^ "part files on disk differ from the model"))
        | _ -> raise (Bad "step")) (lst steps);
    if !out = [] then [Ok_ ("seq" :: List.rev !tags)] else List.rev !out
  | _ -> raise (Bad "seq case")

(* ---------- crash ---------- *)
(* number of micro-steps executed before the process dies at the nth hit of the point *)
let cut_of_point (steps : st_mstep list) (point : string) (nth : int) : int option =
  let rec go i hits = function
    | [] -> None
    | m :: rest ->
      (match point, m with
       | "push.before-insert", MInsert _ | "push.before-update", MUpdate _ | "delete.before-index", MDelete _ ->
         if hits + 1 = nth then Some i else go (i + 1) (hits + 1) rest
       | "delete.after-part", MRemove _ ->
         if hits + 1 = nth then Some (i + 1) else go (i + 1) (hits + 1) rest
       | _ -> go (i + 1) hits rest)
  in go 0 0 steps

let same_modulo_meta (a : orec) (b : orec) = a.ok = b.ok && a.ofrag = b.ofrag && a.oexp = b.oexp && a.oparts = b.oparts

let crash = function
  | [us; now; pre; opx; pts; code; reopen_ok; dump1; algo; core_ok; panics; now2; repush; dump2] ->
    let e = mk_env us now in
    let d = dec e and lv = live e in
    let pre_ops = List.map (op_of_s e) (lst pre) in
    let c0 = List.fold_left apply_op store_init pre_ops in
    let a0 = List.fold_left (spec_apply lv) [] pre_ops in
    let o = op_of_s e opx in
    let (point, nth) = match lst pts with [p; n] -> (atom p, s_int n) | _ -> raise (Bad "point") in
    let steps = op_steps c0 o in
    let cut = cut_of_point steps point nth in
    let c1 = match cut with Some n -> crash_state c0 o (nat_of_int n) | None -> apply_op c0 o in
    let out = ref [] in
    let add v = out := v :: !out in
    let code = s_int code in
    let where = Printf.sprintf "%s at %s#%d (%s): " (Sexp.to_string opx) point nth (atom algo) in
    (* --- property --- *)
    if code <> 0 && code <> 99 then add (Propfail ("store.crash.child-failed", where ^ "child exit code " ^ string_of_int code));
    if not (s_bool reopen_ok) then add (Propfail ("store.crash.store-does-not-reopen", where ^ "NewStore fails on the directory"))
    else if not (s_bool core_ok) then add (Propfail ("store.crash.node-does-not-start", where ^ "NewCore fails / panics on the directory"))
    else begin
      let (orecs1, ofiles1) = dump_of_s dump1 in
      let targets = match o with
        | OPush b -> [int_of_n b.b_id] | ODelete k -> [int_of_n k]
        | OSweep nw -> List.map int_of_n (expired_keys (fun r -> r.a_exp) a0 nw) | _ -> [] in
      let is_del = (match o with ODelete _ | OSweep _ -> true | _ -> false) in
      let before = canon_map e a0 and after = canon_map e (spec_apply lv a0 o) in
      let find k m = List.find_opt (fun r -> r.ok = k) m in
      let keys = List.sort_uniq compare (List.map (fun r -> r.ok) (orecs1 @ before @ after)) in
      List.iter (fun k ->
          let ob = find k orecs1 in
          if not (List.mem k targets) then begin
            if ob <> find k before then
              add (Propfail ("store.crash.other-record-damaged",
                             where ^ "record " ^ string_of_int k ^ " was not operated on but changed: " ^
                             (match ob with Some r -> show_orec r | None -> "gone")))
          end else begin
            let half = match ob, find k before with
              | Some r, Some b -> is_del && { r with oparts = [] } = { b with oparts = [] }
                                  && List.map pt r.oparts = List.map pt b.oparts
                                  && List.for_all2 (fun (_, _, x) (_, _, y) -> x = y || x = DErr) r.oparts b.oparts
              | _ -> false in
            if not (ob = find k before || ob = find k after || half) then
              add (Propfail ("store.crash.torn-record",
                             where ^ "record " ^ string_of_int k ^ " is neither in its before- nor its after-state: " ^
                             (match ob with Some r -> show_orec r | None -> "gone")))
          end) keys;
      (match lst panics with
       | [p1; p2; p3] ->
         if s_bool p1 then add (Propfail ("store.crash.panic-on-restart", where ^ "checkPendingBundles panics"));
         if s_bool p2 then add (Propfail ("store.crash.panic-on-restart", where ^ "DeleteExpired panics"));
         if s_bool p3 then add (Propfail ("store.crash.panic-on-restart", where ^ "Push of the same sbundle panics"))
       | _ -> raise (Bad "panics"));
      (* after the entry points: every other record that is not expired is still there, intact *)
      let (orecs2, ofiles2) = dump_of_s dump2 in
      let nw2 = s_z now2 in
      List.iter (fun (k, (r : arec)) ->
          let ki = int_of_n k in
          if not (List.mem ki targets) && Z.leb nw2 r.a_exp then
            match find ki orecs2 with
            | Some ob when same_modulo_meta ob (orec_of_arec e k r) -> ()
            | ob -> add (Propfail ("store.crash.lost-after-restart",
                                   where ^ "record " ^ string_of_int ki ^ " after the restart entry points: " ^
                                   (match ob with Some r -> show_orec r | None -> "gone")))) a0;
      (* the reference map continued from the state observed at restart: sweep, then the push *)
      let arec_of_orec (r : orec) : n * arec =
        (n_of_int r.ok, { a_pending = r.opend; a_exp = z_of_dec r.oexp; a_frag = r.ofrag; a_props = n_of_int r.oprops;
                          a_parts = List.map (fun (o, t, dd) -> { ap_off = n_of_int o; ap_total = n_of_int t;
                                                                  ap_data = (match dd with DIdx i when i >= 0 -> Some e.u.(i) | _ -> None) }) r.oparts }) in
      let strip (r : orec) = { r with opend = false; oprops = 0 } in
      let a2 = spec_apply lv (spec_apply lv (List.map arec_of_orec orecs1) (OSweep nw2)) (OPush e.u.(s_int repush)) in
      (match map_diff (List.map strip orecs2) (List.map strip (canon_map e a2)) with
       | Some (key, det) -> add (Propfail (key, where ^ "after the restart entry points (sweep, push of sbundle " ^ atom repush ^ "): " ^ det))
       | None -> ());
      (* --- correspondence --- *)
      let exp_code = (match cut with Some _ -> 99 | None -> 0) in
      if code <> exp_code then add (Mismatch (where ^ Printf.sprintf "child exit code %d, model expects %d" code exp_code));
      if orecs1 <> canon_map e (abs d c1) then
        add (Mismatch (where ^ "state after the crash: observed " ^ show_map orecs1 ^ " model " ^ show_map (canon_map e (abs d c1))));
      if ofiles1 <> files_of_model c1 then add (Mismatch (where ^ "part files after the crash differ from the model"));
      if check_pending_outcome d c1 = Panicked then add (Mismatch (where ^ "internal: model panics in checkPendingBundles"));
      let c2 = apply_op (apply_op c1 (OSweep nw2)) (OPush e.u.(s_int repush)) in
      let m2 = canon_map e (abs d c2) in
      if not (List.length m2 = List.length orecs2 && List.for_all2 same_modulo_meta orecs2 m2) then
        add (Mismatch (where ^ "state after the restart entry points: observed " ^ show_map orecs2 ^ " model " ^ show_map m2));
      if ofiles2 <> files_of_model c2 then add (Mismatch (where ^ "part files after the restart entry points differ from the model"))
    end;
    if !out = [] then
      [Ok_ ["crash"; point; (match cut with None -> "point-not-reached" | Some n -> Printf.sprintf "after-%d-of-%d-steps" (min n 3) (min 4 (List.length steps)));
            (match o with OPush _ -> "crash-in-push" | ODelete _ -> "crash-in-delete" | _ -> "crash-in-sweep"); "restart-" ^ atom algo]]
    else List.rev !out
  | _ -> raise (Bad "crash case")

(* ---------- conc ---------- *)
let conc = function
  | [us; now; pre; pushers; nerr; dump] ->
    let e = mk_env us now in
    let lv = live e in
    let pre_ops = List.map (op_of_s e) (lst pre) in
    let a0 = List.fold_left (spec_apply lv) [] pre_ops in
    let ps = List.map (fun i -> e.u.(s_int i)) (lst pushers) in
    let a1 = List.fold_left (fun a b -> spec_apply lv a (OPush b)) a0 ps in
    let (orecs, _) = dump_of_s dump in
    let out = ref [] in
    let add v = out := v :: !out in
    let where = Printf.sprintf "%d concurrent pushes: " (List.length ps) in
    List.iter (fun (b : sbundle) ->
        let n = match List.find_opt (fun r -> r.ok = int_of_n b.b_id) orecs with
          | Some r -> List.length (List.filter (fun (o, t, _) -> o = int_of_n b.b_off && t = int_of_n b.b_total) r.oparts)
          | None -> 0 in
        if n = 0 && !out = [] then add (Propfail ("store.concurrent.lost-part", where ^ Printf.sprintf "fragment %s/%s is not recorded: %s"
                                                    (dec_of_n b.b_off) (dec_of_n b.b_total) (show_map orecs)))
        else if n > 1 && !out = [] then add (Propfail ("store.concurrent.duplicate-part", where ^ show_map orecs))) ps;
    if s_int nerr > 0 && !out = [] then add (Propfail ("store.concurrent.push-error", where ^ atom nerr ^ " Push calls returned an error"));
    (match map_diff orecs (canon_map e a1) with
     | Some (key, det) when !out = [] -> add (Propfail (key, where ^ det))
     | _ -> ());
    if !out = [] then [Ok_ ["conc"; Printf.sprintf "conc-%d-fragments" (List.length ps); (if pre_ops = [] then "conc-empty-store" else "conc-nonempty-store")]]
    else List.rev !out
  | _ -> raise (Bad "conc case")

let () =
  register "C08store" "seq" seq;
  register "C08store" "crash" crash;
  register "C08store" "conc" conc
