(* C07 - local delivery: replay of the observed histories through the extracted model
   (Model/Agents.v) + the property's own checker evaluated on the implementation's observations. *)
open Model
open Conv
open Sexp
open Verdict

let ni = n_of_int
let eid_of n d : ag_eid = (ni n, ni d)
let ints s = List.map s_int (lst s)

(* an arbitrary (deterministic) iteration-order oracle; the model's result does not depend on it *)
let mk_oracle (seed : int) : ag_oracle =
  fun a site ->
    let h = ref (seed * 7919 + int_of_n a * 104729 + int_of_nat site * 1299709 + 12345) in
    List.init 6 (fun _ -> h := (!h * 1103515245 + 12345) land 0x3fffffff; nat_of_int ((!h lsr 8) mod 7))

let event_of (seed : int) (e : Sexp.t) : ag_event * string =
  match lst e with
  | [Atom "reg"; a; k; es] ->
    let es = List.map (fun p -> match ints p with [n; d] -> eid_of n d | _ -> raise (Bad "eid")) (lst es) in
    let g = match s_int k with
      | 0 -> AMock es
      | 1 -> (match es with [e] -> APing e | _ -> raise (Bad "ping eid"))
      | 2 -> ARest ([], [])
      | 3 -> AWs []
      | _ -> raise (Bad "agent kind") in
    (AERegAgent (s_n a, g), "reg")
  | [Atom "rr"; a; u; n; d] -> (AERestRegister (s_n a, s_n u, eid_of (s_int n) (s_int d)), "rr")
  | [Atom "ru"; a; u] -> (AERestUnregister (s_n a, s_n u), "ru")
  | [Atom "rf"; a; u] -> (AERestFetch (s_n a, s_n u), "rf")
  | [Atom "wc"; a; c; n; d] -> (AEWsConnect (s_n a, s_n c, eid_of (s_int n) (s_int d)), "wc")
  | [Atom "wd"; a; c] -> (AEWsDisconnect (s_n a, s_n c), "wd")
  | [Atom "wo"; a; c] -> (AEWsDial (s_n a, s_n c), "wo")
  | [Atom "wg"; a; c; n; d] -> (AEWsRegister (s_n a, s_n c, Some (eid_of (s_int n) (s_int d))), "wg")
  | [Atom "wb"; a; c] -> (AEWsRegister (s_n a, s_n c, None), "wb")
  | [Atom "dv"; b; n; d; rn; rd; w] ->
    (AEDeliver ({ ab_id = s_n b; ab_dst = eid_of (s_int n) (s_int d); ab_rpt = eid_of (s_int rn) (s_int rd);
                  ab_want = s_int w <> 0 }, mk_oracle seed), "dv")
  | _ -> raise (Bad "event")

(* all recipients that exist in a state (WebSocket clients: every connected one, registered or not) *)
let recipients (s : ag_state) : ag_recipient list =
  List.concat_map (fun (a, g) -> match g with
      | AMock _ -> [RMock a]
      | APing _ -> [RPing a]
      | ARest (cl, _) -> List.map (fun (u, _) -> RRest (a, u)) cl
      | AWs cl -> List.map (fun (c, _) -> RWs (a, c)) cl) s.ast_ch

let kind_name = function RMock _ -> "mock" | RPing _ -> "ping" | RRest _ -> "rest" | RWs _ -> "ws"
let show_r = function
  | RMock a -> Printf.sprintf "mock%d" (int_of_n a)
  | RPing a -> Printf.sprintf "ping%d" (int_of_n a)
  | RRest (a, u) -> Printf.sprintf "rest%d.%d" (int_of_n a) (int_of_n u)
  | RWs (a, c) -> Printf.sprintf "ws%d.%d" (int_of_n a) (int_of_n c)
let show_ids l = "[" ^ String.concat "," (List.map string_of_int l) ^ "]"
let ids_of (l : abundle list) = List.map (fun b -> int_of_n b.ab_id) l

(* observation items *)
type obs = {
  hands : (ag_recipient * int) list;       (* mock / ping / ws hand-overs in order *)
  sent : (int * int) list;
  reports : int list;
  others : int;
  fetched : int list option;
  st : (bool * bool * bool) option;
  cl : (int * int * int * int) list;
  mb : (int * int * int list) list;
  wsn : (int * int) list;
  ack : bool option;
  errs : string list;
}

let parse_obs (o : Sexp.t) : obs =
  let rids = ref [] in
  let r = ref { hands = []; sent = []; reports = []; others = 0; fetched = None; st = None; cl = []; mb = []; wsn = []; ack = None; errs = [] } in
  List.iter (fun it -> match lst it with
      | [Atom "h"; k; a; x; b] ->
        let rc = (match s_int k with
            | 0 -> RMock (s_n a) | 1 -> RPing (s_n a) | 3 -> RWs (s_n a, s_n x) | _ -> raise (Bad "h kind")) in
        r := { !r with hands = !r.hands @ [(rc, s_int b)] }
      | [Atom "s"; p; b] -> r := { !r with sent = !r.sent @ [(s_int p, s_int b)] }
      | [Atom "r"; b; _; rid] ->
        (* one report bundle may go to several peers: count distinct report bundles *)
        if not (List.mem (s_int b, s_int rid) !rids) then begin
          rids := (s_int b, s_int rid) :: !rids;
          r := { !r with reports = !r.reports @ [s_int b] }
        end
      | [Atom "ar"; _; _] -> r := { !r with others = !r.others + 1 }
      | [Atom "f"; l] -> r := { !r with fetched = Some (ints l) }
      | [Atom "st"; p; k; l] -> r := { !r with st = Some (s_bool p, s_bool k, s_bool l) }
      | [Atom "cl"; l] ->
        r := { !r with cl = List.map (fun e -> match ints e with [a; u; n; d] -> (a, u, n, d) | _ -> raise (Bad "cl")) (lst l) }
      | [Atom "mb"; l] ->
        r := { !r with mb = List.map (fun e -> match lst e with [a; u; bs] -> (s_int a, s_int u, ints bs) | _ -> raise (Bad "mb")) (lst l) }
      | [Atom "wsn"; l] ->
        r := { !r with wsn = List.map (fun e -> match ints e with [a; c] -> (a, c) | _ -> raise (Bad "wsn")) (lst l) }
      | [Atom "ack"; Atom a] -> r := { !r with ack = Some (a = "ok") }
      | [Atom "err"; Atom e] -> r := { !r with errs = !r.errs @ [e] }
      | _ -> raise (Bad "obs item")) (lst o);
  !r

let model_cl (s : ag_state) =
  List.sort compare (List.concat_map (fun (a, g) -> match g with
      | ARest (cl, _) -> List.map (fun (u, (n, d)) -> (int_of_n a, int_of_n u, int_of_n n, int_of_n d)) cl
      | _ -> []) s.ast_ch)
let model_mb (s : ag_state) =
  List.sort compare (List.concat_map (fun (a, g) -> match g with
      | ARest (_, mb) -> List.map (fun (u, bs) -> (int_of_n a, int_of_n u, ids_of bs)) mb
      | _ -> []) s.ast_ch)
let model_wsn (s : ag_state) =
  List.sort compare (List.concat_map (fun (a, g) -> match g with
      | AWs cl -> [(int_of_n a, List.length cl)]
      | _ -> []) s.ast_ch)

let mb_lookup mb a u = try let (_, _, l) = List.find (fun (a', u', _) -> a = a' && u = u') mb in l with Not_found -> []

let rec is_prefix p l = match p, l with
  | [], _ -> true
  | x :: p', y :: l' -> x = y && is_prefix p' l'
  | _ -> false
let rec drop n l = if n = 0 then l else match l with [] -> [] | _ :: t -> drop (n - 1) t

let hist = function
  | Atom tag :: steps ->
    let res = ref [] and tags = ref [tag] in
    let add v = res := v :: !res in
    let tagit t = if not (List.mem t !tags) then tags := t :: !tags in
    let s = ref (ag_init (ni 0, ni 0) [ni 1; ni 2]) in
    let prev_mb = ref [] in
    (* the checker's own bookkeeping: what each REST client must still get from its mailbox *)
    let exp : (int * int, int list) Hashtbl.t = Hashtbl.create 8 in
    let alive = ref true in
    List.iteri (fun idx step ->
        if !alive then begin
          match lst step with
          | [ev; ob] ->
            let (mev, kind) = event_of (idx + 1) ev in
            let o = parse_obs ob in
            List.iter (fun e -> add (Mismatch ("harness anomaly at step " ^ string_of_int idx ^ ": " ^ e))) o.errs;
            let s0 = !s in
            (* ---------------- property checker on the observation ---------------- *)
            (match mev with
             | AEDeliver (b, _) ->
               let bid = int_of_n b.ab_id in
               let pre = (match o.st with Some (p, _, _) -> p | None -> false) in
               let known_after = (match o.st with Some (_, k, _) -> k | None -> true) in
               let rs = recipients s0 in
               let reg r = ag_registered s0.ast_ch r b.ab_dst in
               let observed r = match r with
                 | RRest (a, u) ->
                   let a = int_of_n a and u = int_of_n u in
                   let before = mb_lookup !prev_mb a u and after = mb_lookup o.mb a u in
                   if is_prefix before after then drop (List.length before) after
                   else (add (Propfail ("c07.mailbox.rewritten", Printf.sprintf "step %d: mailbox of %s was %s, is %s" idx (show_r r) (show_ids before) (show_ids after))); [])
                 | _ -> List.filter_map (fun (r', x) -> if ag_recipient_eqb r r' then Some x else None) o.hands in
               let any_reg = List.exists reg rs in
               (* hand-overs to anybody / to recipients registered for the destination *)
               let handed = ref 0 and handed_reg = ref 0 in
               let ws_unregistered r = (match r with
                   | RWs (a, c) -> (match ag_registered s0.ast_ch r b.ab_dst, List.assoc_opt a s0.ast_ch with
                       | false, Some (AWs cl) -> (match List.assoc_opt c cl with Some None -> true | _ -> false)
                       | _ -> false)
                   | _ -> false) in
               List.iter (fun r ->
                   let got = observed r in
                   handed := !handed + List.length got;
                   if reg r then handed_reg := !handed_reg + List.length got;
                   let want = if (not pre) && reg r then [bid] else [] in
                   if got <> want then begin
                     let k = kind_name r in
                     if List.exists (fun x -> x <> bid) got then
                       add (Propfail ("c07.altered." ^ k, Printf.sprintf "step %d: %s received %s for bundle %d" idx (show_r r) (show_ids got) bid))
                     else if pre then
                       add (Propfail ("c07.dup-delivered." ^ k, Printf.sprintf "step %d: copy of %d not accepted, yet %s received it" idx bid (show_r r)))
                     else if got = [] then
                       add (Propfail ("c07.missed." ^ k, Printf.sprintf "step %d: %s is registered for the destination of bundle %d and did not receive it" idx (show_r r) bid))
                     else if want = [] && ws_unregistered r then
                       add (Propfail ("c07.extra.ws-unregistered", Printf.sprintf "step %d: %s is connected but has not registered an endpoint and received %s" idx (show_r r) (show_ids got)))
                     else if want = [] then
                       add (Propfail ("c07.extra." ^ k, Printf.sprintf "step %d: %s is not registered for the destination of bundle %d and received %s" idx (show_r r) bid (show_ids got)))
                     else
                       add (Propfail ("c07.twice." ^ k, Printf.sprintf "step %d: %s received %s for bundle %d" idx (show_r r) (show_ids got) bid))
                   end) rs;
               List.iter (fun (r, x) ->
                   if not (List.exists (ag_recipient_eqb r) rs) then begin
                     incr handed;
                     add (Propfail ("c07.extra.unknown", Printf.sprintf "step %d: %s (not registered any more) received %d" idx (show_r r) x))
                   end) o.hands;
               if (not pre) && any_reg && List.exists (fun (_, x) -> x = bid) o.sent then
                 add (Propfail ("c07.sent-to-peer", Printf.sprintf "step %d: bundle %d has registered local recipients and was transmitted to a peer" idx bid));
               ignore !handed;
               if List.mem bid o.reports && !handed_reg = 0 then
                 add (Propfail ("c07.report-without-handover", Printf.sprintf "step %d: delivered-report for bundle %d without any hand-over to a recipient registered for its destination" idx bid));
               if (not pre) && (not known_after) && !handed_reg = 0 then
                 add (Propfail ("c07.release-without-handover", Printf.sprintf "step %d: bundle %d left the store without any hand-over to a recipient registered for its destination" idx bid));
               if (not any_reg) && (b.ab_dst = eid_of 8 0) then tagit "dv-none-nobody";
               if (not any_reg) && List.exists (fun r -> match r with RWs _ -> ws_unregistered r | _ -> false) rs then tagit "dv-nobody-with-unregistered-ws";
               if not pre then
                 List.iter (fun r -> match r with
                     | RRest (a, u) when reg r ->
                       let k = (int_of_n a, int_of_n u) in
                       Hashtbl.replace exp k ((try Hashtbl.find exp k with Not_found -> []) @ [bid])
                     | _ -> ()) rs
             | AERestFetch (a, u) ->
               let k = (int_of_n a, int_of_n u) in
               let want = (try Hashtbl.find exp k with Not_found -> []) in
               let got = (match o.fetched with Some l -> l | None -> []) in
               if got <> want then begin
                 if List.exists (fun x -> not (List.mem x got)) want then
                   add (Propfail ("c07.fetch.lost", Printf.sprintf "step %d: fetch of rest%d.%d returned %s, its mailbox was given %s" idx (fst k) (snd k) (show_ids got) (show_ids want)))
                 else
                   add (Propfail ("c07.fetch.extra", Printf.sprintf "step %d: fetch of rest%d.%d returned %s, its mailbox was given %s" idx (fst k) (snd k) (show_ids got) (show_ids want)))
               end;
               Hashtbl.remove exp k
             | AERestUnregister (a, u) -> Hashtbl.remove exp (int_of_n a, int_of_n u)
             | _ -> ());
            (* ---------------- correspondence with the model ---------------- *)
            (match ag_step s0 mev with
             | None -> add (Mismatch (Printf.sprintf "step %d (%s): event not allowed by the model" idx kind)); alive := false
             | Some (s1, outs) ->
               s := s1;
               let mis what = add (Mismatch (Printf.sprintf "step %d (%s): %s" idx kind what)) in
               (* hand-overs to mock / ping / ws recipients *)
               let rs = recipients s0 in
               let rs = List.fold_left (fun acc (r, _) -> if List.exists (ag_recipient_eqb r) acc then acc else acc @ [r]) rs o.hands in
               List.iter (fun r -> match r with
                   | RRest _ -> ()
                   | _ ->
                     let m = ids_of (ag_hands_to r outs) in
                     let i = List.filter_map (fun (r', x) -> if ag_recipient_eqb r r' then Some x else None) o.hands in
                     if m <> i then mis (Printf.sprintf "hand-overs to %s: model %s impl %s" (show_r r) (show_ids m) (show_ids i))) rs;
               let msent = List.sort compare (List.filter_map (function AOSent (p, b) -> Some (int_of_n p, int_of_n b.ab_id) | _ -> None) outs) in
               if msent <> List.sort compare o.sent then
                 mis (Printf.sprintf "sends to peers: model %d impl %d" (List.length msent) (List.length o.sent));
               let mrep = List.filter_map (function AOReport b -> Some (int_of_n b.ab_id) | _ -> None) outs in
               if mrep <> o.reports then mis (Printf.sprintf "delivered-reports: model %s impl %s" (show_ids mrep) (show_ids o.reports));
               if o.others > 0 then mis "unexpected administrative record sent";
               (match List.filter_map (function AOFetched (_, _, bs) -> Some (ids_of bs) | _ -> None) outs, o.fetched with
                | [m], Some i -> if m <> i then mis (Printf.sprintf "fetch response: model %s impl %s" (show_ids m) (show_ids i));
                  tagit (if i = [] then "fetch-empty" else "fetch-nonempty")
                | [], None -> ()
                | _ -> mis "fetch response presence");
               (match mev, o.st with
                | AEDeliver (b, _), Some (pre, known, lep) ->
                  let inl l = List.exists (fun x -> x = b.ab_id) l in
                  if pre <> inl s0.ast_known then mis "bundle known before";
                  if known <> inl s1.ast_known then mis (Printf.sprintf "bundle in store afterwards: model %b impl %b" (inl s1.ast_known) known);
                  let kept = List.exists (function AOKeep _ -> true | _ -> false) outs in
                  let dup = List.exists (function AODup _ -> true | _ -> false) outs in
                  if (not dup) && lep <> kept then mis (Printf.sprintf "LocalEndpoint constraint retained: model %b impl %b" kept lep);
                  let nrec = List.length (List.filter (function AOHand _ -> true | _ -> false) outs) in
                  tagit (if dup then "dv-dup" else if kept then "dv-keep"
                         else if List.exists (function AORelease _ -> true | _ -> false) outs then "dv-local" else "dv-forward");
                  if mrep <> [] then tagit "dv-report";
                  tagit (Printf.sprintf "recipients=%d" (min nrec 4))
                | AEDeliver _, None -> mis "no store observation"
                | _ -> ());
               if model_cl s1 <> o.cl then mis "REST clients map";
               if model_mb s1 <> o.mb then mis "REST mailbox map";
               if model_wsn s1 <> o.wsn then mis "WebSocket client count";
               (match mev, o.ack with
                | AEWsRegister (a, c, _), Some ok ->
                  let m = (match List.assoc_opt a s1.ast_ch with
                      | Some (AWs cl) -> (match List.assoc_opt c cl with Some (Some _) -> true | _ -> false)
                      | _ -> false) in
                  if m <> ok then mis (Printf.sprintf "register acknowledgement: model %b impl %b" m ok);
                  tagit (if ok then "ws-register-ok" else "ws-register-refused")
                | AEWsRegister _, None -> mis "no register acknowledgement observed"
                | _, Some _ -> mis "unexpected register acknowledgement"
                | _ -> ());
               tagit kind);
            prev_mb := o.mb
          | _ -> raise (Bad "step")
        end) steps;
    if !res = [] then [Ok_ (List.rev !tags)] else List.rev !res
  | _ -> raise (Bad "hist case")

(* ---- one mailbox, deliver and fetch concurrently ---- *)
let mkb i = { ab_id = ni i; ab_dst = eid_of 0 1; ab_rpt = eid_of 1 0; ab_want = false }
let rec upto a b = if a >= b then [] else a :: upto (a + 1) b

(* conservation on the implementation's observation: every delivered bundle comes out of the
   fetches exactly once *)
let conservation (k : int) (all : int list) =
  let cnt = Array.make (k + 1) 0 in
  let alien = ref false in
  List.iter (fun i -> if i >= 0 && i < k then cnt.(i) <- cnt.(i) + 1 else alien := true) all;
  let lost = List.filter (fun i -> cnt.(i) = 0) (upto 0 k) and dup = List.filter (fun i -> cnt.(i) > 1) (upto 0 k) in
  let first l = match l with x :: _ -> string_of_int x | [] -> "-" in
  (if lost <> [] then [Propfail ("c07.mailbox.lost", Printf.sprintf "%d of %d delivered bundles are returned by no fetch (first: %s)" (List.length lost) k (first lost))] else [])
  @ (if dup <> [] then [Propfail ("c07.mailbox.dup", Printf.sprintf "%d of %d delivered bundles are returned more than once (first: %s)" (List.length dup) k (first dup))] else [])
  @ (if !alien then [Propfail ("c07.mailbox.altered", "a fetch returned a bundle that was not delivered")] else [])

let racef = function
  | [pre; window; inwin; f1; f2] ->
    let pre = s_int pre and f1 = ints f1 and f2 = ints f2 in
    let pf = conservation (pre + 1) (f1 @ f2) in
    (* model of the repaired code: pre deliveries, then the fetch is stopped after its Load (it
       holds the mutex), the delivery is scheduled (and has to wait), the fetch finishes, the
       delivery runs, a second fetch. Threads: 0..pre-1 deliveries, pre = fetch, pre+1 = delivery,
       pre+2 = final fetch. *)
    let ops = List.map (fun i -> MDeliver (mkb i)) (upto 0 pre) @ [MFetch; MDeliver (mkb pre); MFetch] in
    let t i = nat_of_int i in
    let four i = [t i; t i; t i; t i] in
    let sched = List.concat_map four (upto 0 pre)
                @ [t pre; t pre] @ four (pre + 1) @ [t pre; t pre] @ four (pre + 1) @ four (pre + 2) in
    let m = mbx_run true sched (mbx_init ops) in
    let mm = if not (mbx_all_done m) then [Mismatch "model schedule incomplete"]
      else if ids_of m.mbx_got <> f1 @ f2 then [Mismatch (Printf.sprintf "fetch results: model %s impl %s ++ %s" (show_ids (ids_of m.mbx_got)) (show_ids f1) (show_ids f2))]
      else [] in
    if pf @ mm = [] then [Ok_ ["racef"; (if s_bool window then "window" else "no-window"); (if s_bool inwin then "stored-in-window" else "stored-after")]] else pf @ mm
  | _ -> raise (Bad "racef case")

let races = function
  | [k; nf; all] ->
    let k = s_int k and all = ints all in
    let pf = conservation k all in
    let mm = if pf = [] && all <> upto 0 k then [Mismatch "fetch results are not in delivery order"] else [] in
    if pf @ mm = [] then [Ok_ ["races"; (if s_int nf > 20 then "fetches>20" else "fetches<=20")]] else pf @ mm
  | _ -> raise (Bad "races case")

(* ---- stable recipients while other agents and clients come and go (generator C07churn) ---- *)
let churn = function
  | Atom level :: rcps :: rest ->
    let res = ref [] in
    let add v = res := v :: !res in
    let pair p = (match ints p with [n; d] -> (n, d) | _ -> raise (Bad "pair")) in
    let rcps = List.map (fun r -> match lst r with
        | [id; k; es] -> (s_int id, s_int k, List.map pair (lst es))
        | _ -> raise (Bad "recipient")) (lst rcps) in
    let dst = ref [||] and phases = ref [] in
    List.iter (fun f -> match lst f with
        | [Atom "dst"; l] -> dst := Array.of_list (List.map pair (lst l))
        | [Atom "err"; l] -> List.iter (fun e -> add (Mismatch ("harness anomaly: " ^ s_sym e))) (lst l)
        | [Atom "stuck"] -> ()
        | [Atom "stuck"; what] ->
          add (Propfail ("c07.churn.stuck", Printf.sprintf "%s: the implementation does not come back (%s): bundles for the recipients that are still registered are not delivered any more" level (s_sym what)))
        | ph -> phases := !phases @ [ph]) rest;
    let dst = !dst in
    let kname = function 0 -> "mock" | 1 -> "ping" | 2 -> "rest" | 3 -> "ws" | 4 -> "ws-unregistered" | _ -> "leaving" in
    (* kind 5: a recipient that leaves during the deliveries - the harness writes only what it must not
       have received (bundles for other endpoints, second copies); it is not part of the model run *)
    let stable = List.filter (fun (_, k, _) -> k <> 5) rcps in
    (* the model's configuration: every stable recipient is an agent of its own *)
    let agent_of (_, k, es) = match k, es with
      | 0, _ -> AMock (List.map (fun (n, d) -> eid_of n d) es)
      | 1, [(n, d)] -> APing (eid_of n d)
      | 2, [(n, d)] -> ARest ([(ni 0, eid_of n d)], [])
      | 3, [(n, d)] -> AWs [(ni 0, Some (eid_of n d))]
      | 4, [] -> AWs [(ni 0, None)]
      | _ -> raise (Bad "recipient kind") in
    let rcp_of (id, k, _) = match k with
      | 0 -> RMock (ni id) | 1 -> RPing (ni id) | 2 -> RRest (ni id, ni 0) | _ -> RWs (ni id, ni 0) in
    let s0 = { (ag_init (ni 0, ni 0) [ni 1; ni 2]) with ast_ch = List.map (fun ((id, _, _) as r) -> (ni id, agent_of r)) stable } in
    List.iteri (fun pi ph ->
        let (nb, wrong, noagent, obs, others, sent) = (match ph with
            | [nb; w; na; ob; ot] -> (s_int nb, w, ints na, ob, s_int ot, [])
            | [nb; w; na; ob; ot; se] -> (s_int nb, w, ints na, ob, s_int ot, ints se)
            | _ -> raise (Bad "churn phase")) in
        if nb > Array.length dst then raise (Bad "churn nb");
        let where = Printf.sprintf "%s phase %d" level pi in
        List.iter (fun w -> match lst w with
            | [e; c] when s_int c > 0 ->
              let (n, d) = pair e in
              add (Propfail ("c07.churn.hasendpoint-false", Printf.sprintf "%s: HasEndpoint answered false %d times for endpoint (%d,%d), which a recipient is registered for all the time" where (s_int c) n d))
            | _ -> ()) (lst wrong);
        if noagent <> [] then begin
          if level = "core" then
            add (Mismatch (Printf.sprintf "%s: bundles %s are still in the store (model: delivered and released)" where (show_ids noagent)))
          else
            add (Propfail ("c07.churn.no-agent", Printf.sprintf "%s: no registered agent found for bundles %s, whose recipients are registered all the time" where (show_ids noagent)))
        end;
        if sent <> [] then
          add (Propfail ("c07.churn.sent-to-peer", Printf.sprintf "%s: bundles %s have registered local recipients and were transmitted to a peer" where (show_ids sent)));
        if others > 0 then
          add (Propfail ("c07.churn.extra.other", Printf.sprintf "%s: agents registered for other endpoints received %d bundles" where others));
        (* the model: the same deliveries, nobody else around (C07_amid_others: the others do not matter) *)
        let st = ref s0 and outs = ref [] in
        for i = 0 to nb - 1 do
          let (n, d) = dst.(i) in
          let b = { ab_id = ni i; ab_dst = eid_of n d; ab_rpt = eid_of 1 0; ab_want = false } in
          match ag_step !st (AEDeliver (b, mk_oracle (i + 1))) with
          | Some (s1, o) -> st := s1; outs := !outs @ o
          | None -> raise (Bad "churn model step")
        done;
        List.iter (fun ((id, k, es) as r) ->
            let got = (try (match List.find (fun o -> match lst o with [i; _] -> s_int i = id | _ -> false) (lst obs) with
                | List [_; l] -> ints l | _ -> []) with Not_found -> []) in
            let want = List.filter (fun i -> k <> 4 && List.mem dst.(i) es) (upto 0 nb) in
            let pf = ref false in
            if k = 5 then begin
              if got <> [] then
                add (Propfail ("c07.churn.extra.leaving", Printf.sprintf "%s: recipient %d, which left during the deliveries, received bundles for other endpoints, altered bundles (9999) or second copies: %s" where id (show_ids got)))
            end else begin
            let fail key d = pf := true; add (Propfail (key, Printf.sprintf "%s: recipient %d (%s): %s; received %s" where id (kname k) d (show_ids got))) in
            if List.exists (fun x -> x < 0 || x >= nb) got then fail "c07.churn.altered" "received something that is none of the delivered bundles"
            else begin
              let missing = List.filter (fun i -> not (List.mem i got)) want in
              let extra = List.filter (fun i -> not (List.mem i want)) got in
              let twice = List.filter (fun i -> List.length (List.filter ((=) i) got) > 1) want in
              if missing <> [] then fail ("c07.churn.missed." ^ kname k) (Printf.sprintf "registered all the time, did not receive %s" (show_ids missing));
              if twice <> [] then fail ("c07.churn.twice." ^ kname k) (Printf.sprintf "received %s more than once" (show_ids twice));
              if extra <> [] then fail ("c07.churn.extra." ^ kname k) (Printf.sprintf "not registered for the destination of %s" (show_ids extra))
            end;
            let m = ids_of (ag_hands_to (rcp_of r) !outs) in
            if (not !pf) && m <> got then
              add (Mismatch (Printf.sprintf "%s: hand-overs to recipient %d: model %s impl %s" where id (show_ids m) (show_ids got)))
            end) rcps;
        if List.exists ag_is_sent !outs || !st.ast_known <> [] then add (Mismatch (where ^ ": the model forwards or keeps a bundle"))) !phases;
    if !res = [] then [Ok_ ["churn"; level; Printf.sprintf "phases=%s" (let n = List.length !phases in if n >= 100 then ">=100" else if n >= 10 then "10..99" else string_of_int n)]]
    else List.rev !res
  | _ -> raise (Bad "churn case")

let () =
  register "C07agents" "hist" hist;
  register "C07race" "racef" racef;
  register "C07race" "races" races;
  register "C07churn" "churn" churn
