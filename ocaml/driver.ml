(* driver <generator> <obs-file> : replays every observed case through the extracted model *)
open Verdict

let () =
  let gen = Sys.argv.(1) in
  let ic = open_in Sys.argv.(2) in
  let nok = ref 0 and nmis = ref 0 and npf = ref 0 in
  (try
     while true do
       let line = input_line ic in
       if String.length line > 0 && line.[0] = '(' then begin
         match Sexp.parse line with
         | Sexp.List (Sexp.Atom "case" :: Sexp.Atom n :: Sexp.Atom kind :: fields) ->
           let vs =
             match Hashtbl.find_opt handlers (gen, kind) with
             | None -> [Mismatch ("no handler for kind " ^ kind)]
             | Some h ->
               (try h fields with
                | Conv.Bad m -> [Mismatch ("driver: bad case: " ^ m)]
                | Stack_overflow -> [Mismatch "driver: stack overflow"]
                | Not_found -> [Mismatch "driver: Not_found"]
                | Failure m -> [Mismatch ("driver: failure " ^ m)])
           in
           List.iter (function
               | Ok_ tags -> incr nok; Printf.printf "OK %s %s\n" n (String.concat " " tags)
               | Mismatch d -> incr nmis; Printf.printf "MISMATCH %s %s %s\n" n kind d
               | Propfail (k, d) -> incr npf; Printf.printf "PROPFAIL %s %s %s %s\n" n kind k d) vs
         | _ -> incr nmis; Printf.printf "MISMATCH 0 ? unparsable line\n"
       end
     done
   with End_of_file -> ());
  Printf.printf "SUMMARY ok=%d mismatch=%d propfail=%d\n" !nok !nmis !npf
