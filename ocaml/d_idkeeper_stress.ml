(* C14stress: concurrent IdKeeper.update calls for one (source, creation time): the numbers written
   into the bundles must be pairwise distinct; by the model (every update is one atomic counter step,
   IdKeeper.v) they are exactly 0 .. G*N-1. *)
open Conv
open Sexp
open Verdict

let stress_case = function
  | [tk; g; n; seqs] ->
    let total = s_int g * s_int n in
    let l = List.map s_int (lst seqs) in
    let r = ref [] in
    if List.length l <> total then r := Mismatch (Printf.sprintf "%d numbers for %d updates" (List.length l) total) :: !r;
    let rec dup = function a :: (b :: _ as t) -> if a = b then Some a else dup t | _ -> None in
    (match dup l with
     | Some a -> r := Propfail ("idkeeper.dup-id", Printf.sprintf "sequence number %d was assigned to two bundles of one source and creation time (%d goroutines x %d concurrent updates)" a (s_int g) (s_int n)) :: !r
     | None -> ());
    if !r = [] && l <> List.init total (fun i -> i) then
      r := Mismatch "the numbers assigned are distinct but not 0 .. G*N-1 (a number was skipped)" :: !r;
    if !r = [] then [Ok_ ["stress"; (if s_int tk = 0 then "epoch" else "clocked")]] else !r
  | _ -> raise (Bad "stress case")

(* a zero-time source's counter must survive any number of other (source, time) states: the second
   zero-time bundle gets the next number (the model never forgets epoch-time entries) *)
let burst_case = function
  | [k; s0; s1] ->
    if s_int s0 = 0 && s_int s1 = 1 then [Ok_ ["burst"]]
    else if s_int s1 = s_int s0 then
      [Propfail ("idkeeper.dup-id", Printf.sprintf "the second zero-time bundle of a source got sequence number %d again after %d other (source, time) states had been counted in between" (s_int s1) (s_int k))]
    else [Mismatch (Printf.sprintf "zero-time sequence numbers %d, %d after %d states" (s_int s0) (s_int s1) (s_int k))]
  | _ -> raise (Bad "burst case")

let () = register "C14stress" "stress" stress_case; register "C14stress" "burst" burst_case
