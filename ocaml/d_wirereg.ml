(* driver glue for generator C17reg (harness/wirereg.go): the codecs' registries as state, and the first use of the
   codecs' singletons by several goroutines of a fresh process.  Sorts after d_auxcbor.ml (glob order of build.sh).

   reg: the registry is a finite map code -> type; the reference below is the whole specification of Register /
   Unregister (taken code => refused and NOTHING changes; free code => stored; removal deletes the code; a
   GenericExtensionBlock is never registered).  Judged on the implementation alone: the probe behind a refused
   registration equals the probe in front of it; the streams written and read back behind every operation are
   judged by the "stream" judge of C17auxcbor whenever the reference registry holds the built-in types.
   firstuse: every operation of the child gives the result the parent got sequentially. *)
open Model
open Conv
open Sexp
open Verdict

let short s = if String.length s > 240 then String.sub s 0 240 ^ "..." else s

(* probe: ((code known type) ...) -> sorted assoc list code -> type for the registered codes; known and type must agree *)
let probe_map (p : Sexp.t) : (string * string) list * bool =
  let coherent = ref true in
  let m = List.filter_map (fun e -> match lst e with
      | [c; k; t] ->
        let known = s_bool k and t = s_sym t in
        let reg = t <> "none" && t <> "GenericExtensionBlock" in
        if known <> reg then coherent := false;
        if known then Some (atom c, t) else None
      | _ -> raise (Bad "probe entry")) (lst p) in
  (List.sort compare m, !coherent)

let show_map m = "{" ^ String.concat ", " (List.map (fun (c, t) -> c ^ "->" ^ t) m) ^ "}"

let builtin = function
  | "arm" -> [("1", "StatusReport")]
  | _ -> [("1", "PayloadBlock"); ("10", "HopCountBlock"); ("6", "PreviousNodeBlock"); ("7", "BundleAgeBlock")]

let h_reg = function
  | [now; target; init; steps; final] ->
    let target = s_sym target in
    let fam = String.sub target 0 3 in
    let (m0, coh0) = probe_map init in
    let r = ref [] in
    if not coh0 then r := Mismatch "initial probe: IsKnown and the created type disagree" :: !r;
    if m0 <> List.sort compare (builtin fam) then r := Mismatch ("initial registry is not the built-in one: " ^ show_map m0) :: !r;
    let refm = ref m0 and prev = ref m0 in
    let nref = ref 0 and nok = ref 0 and nun = ref 0 and nstream = ref 0 in
    List.iteri (fun i st -> match lst st with
        | [op; typ; code; res; probe; stream] ->
          let op = s_sym op and typ = s_sym typ and code = atom code and res = s_sym res in
          let what = Printf.sprintf "step %d (%s %s for code %s => %s)" (i + 1) op typ code res in
          let (m, coh) = probe_map probe in
          (* reference *)
          let expect =
            if op = "unreg" then (refm := List.filter (fun (c, _) -> c <> code) !refm; "ok")
            else if typ = "GenericExtensionBlock" || List.mem_assoc code !refm then "refused"
            else (refm := List.sort compare ((code, typ) :: !refm); "ok") in
          (* the property on the implementation alone: a refused registration changes nothing *)
          if res = "refused" then begin
            incr nref;
            if m <> !prev then
              r := Propfail ("registry." ^ fam ^ ".refused-changes-state",
                             Printf.sprintf "%s: registry before %s, after %s" what (show_map !prev) (show_map m)) :: !r
          end else if op = "reg" then incr nok else incr nun;
          if res <> expect then r := Mismatch (Printf.sprintf "%s: the reference registry says %s" what expect) :: !r;
          if not coh then r := Mismatch (what ^ ": IsKnown and the created type disagree") :: !r;
          if m <> !refm && not (res = "refused" && m <> !prev) then
            r := Mismatch (Printf.sprintf "%s: registry %s, reference %s" what (show_map m) (show_map !refm)) :: !r;
          prev := m;
          (* ordinary stream behind the operation *)
          (match lst stream with
           | [vals; bs; back; rem] ->
             let intact = List.for_all (fun e -> List.mem e !refm) (builtin fam) in
             if intact then begin
               incr nstream;
               List.iter (function
                   | Ok_ _ -> ()
                   | Propfail (k, d) -> r := Propfail (k, what ^ ": " ^ d) :: !r
                   | Mismatch d -> r := Mismatch (what ^ ": " ^ d) :: !r) (D_auxcbor.h_stream [now; vals; bs; back; rem])
             end
           | [] -> ()
           | _ -> raise (Bad "reg stream"))
        | _ -> raise (Bad "reg step")) (lst steps);
    let (mf, _) = probe_map final in
    if fam = "ebm" || target = "arm-single" then
      if mf <> List.sort compare (builtin fam) then r := Mismatch ("the generator did not restore the registry: " ^ show_map mf) :: !r;
    if !r = [] then
      [Ok_ ["reg"; target; Printf.sprintf "refused%d" (min !nref 3); Printf.sprintf "stored%d" (min !nok 2);
            Printf.sprintf "removed%d" (min !nun 2); (if !nstream > 0 then "streams" else "no-stream")]]
    else List.rev !r
  | _ -> raise (Bad "reg fields")

let h_firstuse = function
  | [_; rounds; n; ops; _delays; seq; res; detail] ->
    let ops = lst ops and seq = lst seq in
    let nops = List.length ops in
    let how = if s_int rounds = 1 then "first operations of a fresh process" else "first operations after the managers were put back to the unused state" in
    (match lst res with
     | [Atom "survived"; rs] ->
       let r = ref [] and total = ref 0 in
       List.iter (fun e -> match lst e with
           | [k; o; c] ->
             let k = s_int k in
             if k >= nops then raise (Bad "firstuse op index");
             total := !total + s_int c;
             let e = List.nth seq k in
             if Sexp.to_string o <> Sexp.to_string e && !r = [] then
               r := [Propfail ("eid.firstuse.differs",
                               Printf.sprintf "%s, %d goroutines, %s gave %d time(s) %s; sequentially: %s" how (s_int n)
                                 (short (Sexp.to_string (List.nth ops k))) (s_int c) (short (Sexp.to_string o)) (short (Sexp.to_string e)))]
           | _ -> raise (Bad "firstuse result entry")) (lst rs);
       if !total <> s_int n * s_int rounds then r := Mismatch "number of results" :: !r;
       if !r = [] then [Ok_ ["firstuse"; (if s_int rounds = 1 then "fresh" else "reset"); Printf.sprintf "n%d" (s_int n)]] else !r
     | [Atom "died"] ->
       [Propfail ("eid.firstuse.died", how ^ ": the process died: " ^ D_auxcbor.ax_str_of_bytes (s_bytes detail))]
     | [Atom ("unavailable" | "timeout" | "badinput" as w)] -> [Ok_ ["firstuse"; "inconclusive-" ^ w]]
     | _ -> raise (Bad "firstuse result"))
  | _ -> raise (Bad "firstuse fields")

let () =
  register "C17reg" "reg" h_reg;
  register "C17reg" "firstuse" h_firstuse
