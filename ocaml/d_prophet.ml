(* C19 - PRoPHET: replays the harness' observations through the extracted Flocq model
   (bit-for-bit on the 64 bits of every predictability) and evaluates the property's own checker
   (range, per-step monotonicity, forwarding gate, aliasing) on what the implementation produced,
   with OCaml's native IEEE doubles - independent of the model. *)
open Model
open Conv
open Sexp
open Verdict

(* ---- 64-bit patterns ---- *)
let i64_of_atom s = Int64.of_string ("0u" ^ atom s)
let n_of_i64 (x : int64) : n =
  if x = 0L then N0 else
    let rec go (x : int64) : positive =
      let hi = Int64.shift_right_logical x 1 in
      if hi = 0L then XH else if Int64.logand x 1L = 0L then XO (go hi) else XI (go hi) in
    Npos (go x)
let i64_of_n = function
  | N0 -> 0L
  | Npos p ->
    let rec go = function
      | XH -> 1L
      | XO q -> Int64.shift_left (go q) 1
      | XI q -> Int64.logor (Int64.shift_left (go q) 1) 1L in
    go p
let f_of_i64 x = pf_of_bits (n_of_i64 x)
let i64_of_f f = i64_of_n (pf_bits f)
let fl = Int64.float_of_bits
let show64 x = Printf.sprintf "%Lu(%h)" x (fl x)

type omap = (int * int64) list          (* observed map, sorted by key *)

let omap_of_s s : omap = List.map (fun e -> match lst e with [k; v] -> (s_int k, i64_of_atom v) | _ -> raise (Bad "kv")) (lst s)
let pmap_of_omap (m : omap) = List.map (fun (k, v) -> (n_of_int k, f_of_i64 v)) m
let omap_of_pmap (m : (n * f64) list) : omap =
  List.sort compare (List.map (fun (k, v) -> (int_of_n k, i64_of_f v)) m)
let show_omap (m : omap) = "{" ^ String.concat " " (List.map (fun (k, v) -> Printf.sprintf "%d:%s" k (show64 v)) m) ^ "}"
let oget (m : omap) k = try List.assoc k m with Not_found -> 0L

let conf_of_s s = match lst s with
  | [a; b; c] -> { pc_pinit = f_of_i64 (i64_of_atom a); pc_beta = f_of_i64 (i64_of_atom b); pc_gamma = f_of_i64 (i64_of_atom c) }
  | _ -> raise (Bad "conf")

let in01 (x : int64) = let v = fl x in v >= 0.0 && v <= 1.0

(* ---- property checker pieces (implementation output only, native floats) ---- *)
let check_range what (m : omap) =
  List.filter_map (fun (k, v) ->
      if in01 v then None
      else Some (Propfail ("prophet.range." ^ what, Printf.sprintf "key n%d = %s outside [0,1]" k (show64 v)))) m

(* dir = `Up: no key may get lower; `Down: no key may get higher; `Same: unchanged *)
let check_mono what dir (prev : omap) (cur : omap) =
  let keys = List.sort_uniq compare (List.map fst prev @ List.map fst cur) in
  List.filter_map (fun k ->
      let a = fl (oget prev k) and b = fl (oget cur k) in
      let bad, key = match dir with
        | `Up -> not (b >= a), "prophet.monotone." ^ what ^ "-lowers"
        | `Down -> not (b <= a), "prophet.monotone." ^ what ^ "-raises"
        | `Same -> false, "" (* nothing claimed by the property; a change is a model mismatch *) in
      if bad then Some (Propfail (key, Printf.sprintf "key n%d: %h -> %h" k a b)) else None) keys

(* ---- the order in which Go's range visited the imported vector ----
   It only matters relative to an entry for the sending peer itself (predictabilities[peer] is
   re-read in every iteration).  Entries whose observed result equals the value computed with the
   old predictabilities[peer] are placed before the self entry, all others after it; the model is
   then run with that order and must reproduce the whole observed state (validation of the
   unspecified choice against the observation, not a prediction). *)
let order_vec c (s : pstate) (p : int) (vec : omap) (obs : omap) : (n * f64) list * bool =
  if not (List.mem_assoc p vec) then (pmap_of_omap vec, false)
  else begin
    let pn = n_of_int p in
    let pp_old = pm_get s.ps_own pn in
    let before, after = List.partition (fun (k, v) ->
        k <> p && i64_of_f (trans_val c (pm_get s.ps_own (n_of_int k)) pp_old (f_of_i64 v)) = oget obs k)
        (List.filter (fun (k, _) -> k <> p) vec) in
    (pmap_of_omap (before @ [(p, List.assoc p vec)] @ after), true)
  end

let all_in01_conf s = match lst s with [a; b; c] -> in01 (i64_of_atom a) && in01 (i64_of_atom b) && in01 (i64_of_atom c) | _ -> false

let peers_of_s s = List.map (fun e -> match lst e with [k; v] -> (s_int k, omap_of_s v) | _ -> raise (Bad "peers")) (lst s)
let model_peers (s : pstate) = List.sort compare (List.map (fun (k, v) -> (int_of_n k, omap_of_pmap v)) s.ps_peers)

(* ---- (case n seq inrange conf (ev...) peers) ---- *)
let seq = function
  | [inr; conf; evs; peers] ->
    let inrange = s_bool inr in
    let c = conf_of_s conf in
    let st = ref prophet_init in
    let prev = ref ([] : omap) in
    let res = ref [] in
    let nev = ref 0 and nself = ref 0 and nenc = ref 0 and nage = ref 0 and nimp = ref 0 in
    let stop = ref false in
    List.iter (fun ev ->
        if not !stop then begin
          incr nev;
          let what, dir, obs, st' =
            match lst ev with
            | [Atom "enc"; p; own] -> incr nenc; "encounter", `Up, omap_of_s own, prophet_encounter c !st (n_of_int (s_int p))
            | [Atom "age"; own] -> incr nage; "ageing", `Down, omap_of_s own, prophet_age c !st
            | [Atom "imp"; p; vec; own] ->
              incr nimp;
              let obs = omap_of_s own in
              let v, self = order_vec c !st (s_int p) (omap_of_s vec) obs in
              if self then incr nself;
              "transitivity", `Up, obs, prophet_import c !st (n_of_int (s_int p)) v
            | _ -> raise (Bad "seq event") in
          let m = omap_of_pmap st'.ps_own in
          if m <> obs then begin
            res := Mismatch (Printf.sprintf "step %d (%s): model %s impl %s" !nev what (show_omap m) (show_omap obs)) :: !res;
            stop := true
          end;
          if inrange then begin
            (match check_range what obs @ check_mono what dir !prev obs with
             | [] -> ()
             | l -> res := (List.hd l) :: !res; stop := true)
          end;
          prev := obs;
          st := st'
        end) (lst evs);
    if not !stop && model_peers !st <> peers_of_s peers then res := Mismatch "stored peer vectors differ" :: !res;
    if !res = [] then
      [Ok_ (["seq"; (if inrange then "in-contract" else "out-of-contract");
             (if !nev >= 1000 then "steps>=1000" else if !nev >= 100 then "steps>=100" else "steps<100")]
            @ (if !nself > 0 then ["vector-with-self-entry"] else [])
            @ (if !nenc > 0 then ["enc"] else []) @ (if !nage > 0 then ["age"] else []) @ (if !nimp > 0 then ["imp"] else []))]
    else List.rev !res
  | _ -> raise (Bad "seq case")

(* ---- (case n vals conf ((x y z enc age tr)...)) ---- *)
let vals = function
  | [conf; rows] ->
    let c = conf_of_s conf in
    let cin = all_in01_conf conf in
    let res = ref [] and n = ref 0 in
    List.iter (fun row ->
        match List.map i64_of_atom (lst row) with
        | [x; y; z; enc; age; tr] ->
          incr n;
          if List.length !res < 5 then begin
            let fx = f_of_i64 x in
            let me = i64_of_f (encounter_val c fx) and ma = i64_of_f (age_val c fx)
            and mt = i64_of_f (trans_val c fx (f_of_i64 y) (f_of_i64 z)) in
            if me <> enc then res := Mismatch (Printf.sprintf "encounter(%s): model %s impl %s" (show64 x) (show64 me) (show64 enc)) :: !res;
            if ma <> age then res := Mismatch (Printf.sprintf "agePred(%s): model %s impl %s" (show64 x) (show64 ma) (show64 age)) :: !res;
            if mt <> tr then res := Mismatch (Printf.sprintf "transitivity(%s,%s,%s): model %s impl %s" (show64 x) (show64 y) (show64 z) (show64 mt) (show64 tr)) :: !res;
            if cin && in01 x && in01 y && in01 z then begin
              if not (in01 enc) then res := Propfail ("prophet.range.encounter", Printf.sprintf "p=%s -> %s" (show64 x) (show64 enc)) :: !res;
              if not (in01 age) then res := Propfail ("prophet.range.ageing", Printf.sprintf "p=%s -> %s" (show64 x) (show64 age)) :: !res;
              if not (in01 tr) then res := Propfail ("prophet.range.transitivity", Printf.sprintf "p=%s pp=%s o=%s -> %s" (show64 x) (show64 y) (show64 z) (show64 tr)) :: !res;
              if not (fl enc >= fl x) then res := Propfail ("prophet.monotone.encounter-lowers", Printf.sprintf "%h -> %h" (fl x) (fl enc)) :: !res;
              if not (fl age <= fl x) then res := Propfail ("prophet.monotone.ageing-raises", Printf.sprintf "%h -> %h" (fl x) (fl age)) :: !res;
              if not (fl tr >= fl x) then res := Propfail ("prophet.monotone.transitivity-lowers", Printf.sprintf "%h -> %h" (fl x) (fl tr)) :: !res
            end
          end
        | _ -> raise (Bad "vals row")) (lst rows);
    if !res = [] then [Ok_ ["vals"; Printf.sprintf "rows=%d" !n]] else List.rev !res
  | _ -> raise (Bad "vals case")

(* ---- (case n alias status snapshot live) ---- *)
let alias = function
  | [Atom "ok"; snap; live] ->
    let a = omap_of_s snap and b = omap_of_s live in
    (* model: the repaired sendMetadata marshals a private copy (object OCopy t), never OOwn *)
    let prog = mop_prog true (nat_of_int 0) (OpPeerAppeared (nat_of_int 1)) in
    let marshals_copy = List.exists (function ABegin (OCopy _) -> true | _ -> false) prog in
    if not marshals_copy then [Mismatch "model: sendMetadata does not marshal a copy"] else
    if a <> b then
      [Propfail ("prophet.metadata.aliases-live-map",
                 Printf.sprintf "vector in the bundle handed to the CLA was %s, after later updates of the node it reads %s" (show_omap a) (show_omap b))]
    else [Ok_ ["alias-probe"]]
  | _ -> [Mismatch "alias probe: no metadata bundle was handed to the CLA on peer appearance"]

(* ---- forwarding ---- *)
let gate_check (own : int -> int64) (peer : int -> int -> int64 option) dest (to_ : int) =
  if to_ = dest then None
  else begin
    let o = fl (own dest) in
    match peer to_ dest with
    | None -> Some (Propfail ("prophet.gate.unknown-peer", Printf.sprintf "data bundle for n%d offered to n%d which advertised nothing (own %h)" dest to_ o))
    | Some pv ->
      let p = fl pv in
      if p > o then None
      else if p = o then Some (Propfail ("prophet.gate.tie", Printf.sprintf "data bundle for n%d offered to n%d: peer %h = own %h" dest to_ p o))
      else Some (Propfail ("prophet.gate.lower", Printf.sprintf "data bundle for n%d offered to n%d: peer %h, own %h" dest to_ p o))
  end

(* (case n gate dest k own peers css data) *)
let gate = function
  | [dest; k; own; peers; css; data] ->
    let dest = s_int dest and k = s_int k in
    let own = omap_of_s own and peers = peers_of_s peers in
    let css = List.map s_int (lst css) in
    let s = { ps_own = pmap_of_omap own; ps_peers = List.map (fun (p, v) -> (n_of_int p, pmap_of_omap v)) peers } in
    let offer = List.sort compare (List.map int_of_n (prophet_offer s (n_of_int dest) [] (List.map n_of_int css))) in
    let obs = List.sort compare (List.map (fun e -> match lst e with
        | [t; d; p] -> if s_int t <> k || s_int d <> dest then raise (Bad "gate: foreign bundle") else s_int p
        | _ -> raise (Bad "gate send")) (lst data)) in
    let res = ref [] in
    if offer <> obs then
      res := Mismatch (Printf.sprintf "dest n%d: model offers to [%s], impl to [%s]" dest
                         (String.concat "," (List.map string_of_int offer)) (String.concat "," (List.map string_of_int obs))) :: !res;
    let peer p d = match List.assoc_opt p peers with None -> None | Some v -> Some (oget v d) in
    List.iter (fun p -> match gate_check (oget own) peer dest p with Some f -> res := f :: !res | None -> ()) obs;
    if !res = [] then begin
      let cls p = if p = dest then "direct" else "by-predictability" in
      [Ok_ (["gate"; (if obs = [] then "nobody" else "offered")] @ List.sort_uniq compare (List.map cls obs))]
    end else List.rev !res
  | _ -> raise (Bad "gate case")

(* ---- (case n coreseq conf (((head) own meta data)...) peers) ---- *)
let coreseq = function
  | [conf; evs; peers] ->
    let c = conf_of_s conf in
    let st = ref prophet_init in
    let up = ref ([] : int list) in
    let pending = ref ([] : (int * int * n list) list) in     (* tag, dest, sent *)
    let lastvec = ref ([] : (int * omap) list) in               (* what each peer advertised last (inputs) *)
    let prev = ref ([] : omap) in
    let res = ref [] and stop = ref false and nev = ref 0 in
    let tags = ref [] in
    let tag t = if not (List.mem t !tags) then tags := t :: !tags in
    let dispatch (t, d, sent) =
      let css = List.map n_of_int (List.sort compare !up) in
      if List.mem d !up then ([(t, d, d)], None)
      else begin
        let ch, sent' = prophet_senders !st (n_of_int d) sent css in
        (List.map (fun p -> (t, d, int_of_n p)) ch, Some (t, d, sent'))
      end in
    let dispatch_all l =
      let sends = ref [] and keep = ref [] in
      List.iter (fun b -> let s, k = dispatch b in sends := !sends @ s; (match k with Some b' -> keep := !keep @ [b'] | None -> ())) l;
      (!sends, !keep) in
    List.iter (fun ev ->
        if not !stop then begin
          incr nev;
          match lst ev with
          | [head; own; meta; data] ->
            let obs = omap_of_s own in
            let ometa = List.filter_map (fun e -> match lst e with
                | [to_; src; dst; vec] -> if s_int src = 0 then Some (s_int to_, s_int dst, omap_of_s vec) else None
                | _ -> raise (Bad "meta")) (lst meta) in
            let odata = List.sort compare (List.map (fun e -> match lst e with
                | [t; d; p] -> (s_int t, s_int d, s_int p) | _ -> raise (Bad "data")) (lst data)) in
            let what, dir, emeta, edata =
              match lst head with
              | [Atom "up"; p] ->
                let p = s_int p in
                st := prophet_encounter c !st (n_of_int p);
                up := p :: !up;
                let sends, keep = dispatch_all !pending in
                pending := keep;
                tag "up";
                "encounter", `Up, [(p, p, omap_of_pmap !st.ps_own)], sends
              | [Atom "down"; p] ->
                up := List.filter (fun q -> q <> s_int p) !up; tag "down";
                "peer-down", `Same, [], []
              | [Atom "recv"; p; dst; vec] ->
                let p = s_int p in
                if s_int dst = 0 then begin
                  let v, self = order_vec c !st p (omap_of_s vec) obs in
                  if self then tag "vector-with-self-entry";
                  st := prophet_import c !st (n_of_int p) v;
                  lastvec := (p, omap_of_s vec) :: List.remove_assoc p !lastvec;
                  tag "recv-for-me";
                  "transitivity", `Up, [], []
                end else begin tag "recv-for-other"; "foreign-metadata", `Same, [], [] end
              | [Atom "age"] -> st := prophet_age c !st; tag "age"; "ageing", `Down, [], []
              | [Atom "data"; t; d] ->
                let sends, keep = dispatch (s_int t, s_int d, []) in
                (match keep with Some b -> pending := !pending @ [b] | None -> ());
                tag "data";
                "submit", `Same, [], sends
              | [Atom "tick"] ->
                let sends, keep = dispatch_all !pending in
                pending := keep; tag "tick";
                "tick", `Same, [], sends
              | _ -> raise (Bad "coreseq head") in
            let m = omap_of_pmap !st.ps_own in
            let edata = List.sort compare edata in
            if m <> obs then begin
              res := Mismatch (Printf.sprintf "event %d (%s): model %s impl %s" !nev what (show_omap m) (show_omap obs)) :: !res; stop := true end
            else if emeta <> ometa then begin
              res := Mismatch (Printf.sprintf "event %d (%s): summary vector handed to the CLA differs from the node's vector" !nev what) :: !res; stop := true end
            else if edata <> odata then begin
              let sh l = String.concat " " (List.map (fun (t, d, p) -> Printf.sprintf "b%d(n%d)->n%d" t d p) l) in
              res := Mismatch (Printf.sprintf "event %d (%s): data bundles offered: model [%s] impl [%s]" !nev what (sh edata) (sh odata)) :: !res; stop := true end;
            (* the property itself on the implementation's output *)
            let pf = check_range what obs @ check_mono what dir !prev obs
                     @ List.filter_map (fun (_, d, p) ->
                         if p <> d then tag "offered-by-predictability" else tag "direct";
                         gate_check (oget obs) (fun q dd -> match List.assoc_opt q !lastvec with None -> None | Some v -> Some (oget v dd)) d p) odata in
            (match pf with [] -> () | f :: _ -> res := f :: !res; stop := true);
            prev := obs
          | _ -> raise (Bad "coreseq event")
        end) (lst evs);
    if not !stop && model_peers !st <> peers_of_s peers then res := Mismatch "stored peer vectors differ" :: !res;
    if !res = [] then [Ok_ ("coreseq" :: List.sort compare !tags)] else List.rev !res
  | _ -> raise (Bad "coreseq case")

(* ---- (case n locks ((site held)...)) : lock discipline at the observable map accesses ---- *)
let held_at prog (pick : mact -> bool) =
  let h = ref HNone and out = ref [] in
  List.iter (fun a ->
      (match a with ALock -> h := HWrite | ARLock -> h := HRead | AUnlock | ARUnlock -> h := HNone | _ -> ());
      if pick a then out := !h :: !out) prog;
  List.rev !out

let locks = function
  | [obs] ->
    let two = nat_of_int 2 in
    let is_write = function AWrite OOwn -> true | _ -> false in
    let is_begin = function ABegin OOwn -> true | _ -> false in
    (* what the model of the repaired code holds at these accesses *)
    let model_write op = List.for_all (fun h -> h = HWrite) (held_at (mop_prog true O op) is_write) in
    let model_read = List.for_all (fun h -> h <> HNone) (held_at (mop_prog true O OpSenderFor) is_begin) in
    let is_peers = function ABegin OPeers -> true | _ -> false in
    (* the metadata path looks the peer up (twice: NotifyNewBundle, transitivity) under the write lock it
       keeps for the store that follows; SenderForBundle reads both maps under the read lock *)
    let model_peers_w = List.for_all (fun h -> h = HWrite) (held_at (mop_prog true O (OpImport two)) is_peers)
                        && List.length (held_at (mop_prog true O (OpImport two)) is_peers) = 2 in
    let model_peers_r = List.for_all (fun h -> h <> HNone) (held_at (mop_prog true O OpSenderFor) is_peers) in
    let sites = [("encounter.write", model_write (OpPeerAppeared two)); ("agePred.write", model_write (OpAge two));
                 ("transitivity.write", model_write (OpImport two)); ("SenderForBundle.lookup", model_read);
                 ("NotifyNewBundle.lookup", model_peers_w); ("transitivity.lookup", model_peers_w);
                 ("SenderForBundle.compare", model_read && model_peers_r)] in
    let seen = ref [] and res = ref [] in
    List.iter (fun e -> match lst e with
        | [site; held] ->
          let site = atom site and held = s_bool held in
          if not (List.mem site !seen) then seen := site :: !seen;
          (match List.assoc_opt site sites with
           | None -> res := Mismatch ("unknown probe site " ^ site) :: !res
           | Some m ->
             if not held then
               res := Propfail ("prophet.lock." ^ site ^ "-unlocked",
                                "the predictability map is accessed at " ^ site ^ " while dataMutex is not held (a concurrent ageCron / encounter makes this Go's fatal concurrent map access)") :: !res
             else if not m then res := Mismatch ("model does not hold the lock at " ^ site) :: !res)
        | _ -> raise (Bad "locks obs")) (lst obs);
    List.iter (fun (site, _) -> if not (List.mem site !seen) then res := Mismatch ("lock probe did not observe " ^ site) :: !res) sites;
    if !res = [] then [Ok_ ["lock-probe"]] else List.sort_uniq compare !res
  | _ -> raise (Bad "locks case")

(* ---- (case n stress exitcode what) ---- *)
let stress = function
  | [code; what] ->
    (* model: no schedule of the repaired code's map accesses faults (theorem C19_no_concurrent_map_fault);
       a sample of schedules is replayed here as a sanity check of the extracted model *)
    let ops = [OpPeerAppeared (nat_of_int 2); OpAge (nat_of_int 2); OpImport (nat_of_int 2); OpSenderFor] in
    let sched = List.init 200 (fun i -> nat_of_int ((i * 7 + i / 3) mod 4)) in
    if mrun (mthreads true ops) sched then [Mismatch "model: fault in the repaired interleaving model"]
    else if s_int code = 0 && atom what = "clean" then [Ok_ ["stress-clean"]]
    else if String.length (atom what) > 15 && String.sub (atom what) 0 15 = "concurrent-map-" then
      [Propfail ("prophet.concurrent-map-fault." ^ String.sub (atom what) 15 (String.length (atom what) - 15),
                 "child process died with Go's fatal concurrent map access error (" ^ atom what ^ ") while peers appeared / vectors arrived / ageing / pending check ran")]
    else [Propfail ("prophet.concurrent-crash", Printf.sprintf "child process ended with exit code %d (%s)" (s_int code) (atom what))]
  | _ -> raise (Bad "stress case")

(* ---- (case n stress2 scenario exitcode what) : concurrent summary vectors in a child process ---- *)
let stress2 = function
  | [scen; code; what] ->
    let scen = atom scen and what = atom what and code = s_int code in
    (* sanity check of the extracted interleaving model on the operations of this scenario: several imports at
       once next to the other operations never fault (theorem C19_no_concurrent_map_fault) *)
    let two = nat_of_int 2 in
    let ops = [OpImport two; OpImport two; OpImport two; OpPeerAppeared two; OpAge two; OpSenderFor] in
    let sched = List.init 400 (fun i -> nat_of_int ((i * 5 + i / 7) mod 6)) in
    if mrun (mthreads true ops) sched then [Mismatch "model: fault in the repaired interleaving model"]
    else if code = 0 && what = "clean" then [Ok_ ["stress-" ^ scen ^ "-clean"]]
    else if String.length what > 15 && String.sub what 0 15 = "concurrent-map-" then
      [Propfail ("prophet.concurrent-map-fault." ^ scen ^ "." ^ String.sub what 15 (String.length what - 15),
                 "child process died with Go's fatal concurrent map access error (" ^ what ^ ") while several goroutines delivered summary vectors of many peers (NotifyNewBundle) next to peers appearing / ageing / SenderForBundle / sendMetadata")]
    else if what = "range" then
      [Propfail ("prophet.concurrent-range." ^ scen, "after the concurrent deliveries a predictability held by the node is outside [0,1]")]
    else [Propfail ("prophet.concurrent-crash." ^ scen, Printf.sprintf "child process ended with exit code %d (%s)" code what)]
  | _ -> raise (Bad "stress2 case")

let () =
  register "C19stress" "stress2" stress2;
  register "C19arith" "seq" seq;
  register "C19arith" "vals" vals;
  register "C19core" "alias" alias;
  register "C19core" "locks" locks;
  register "C19core" "gate" gate;
  register "C19core" "coreseq" coreseq;
  (* C19names: the same gate / coreseq cases with nearly colliding node names (node identity = index) *)
  register "C19names" "gate" gate;
  register "C19names" "coreseq" coreseq;
  register "C19stress" "stress" stress
