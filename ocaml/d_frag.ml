(* C09 - fragmentation: driver glue.  Replays the cases of harness/frag.go through the extracted model
   (Model.fg_fragment / Model.fg_reassemble) and evaluates the property's own checker - written directly
   against the property text on the dumps and serialisations the implementation produced, independent of
   the model's fragment function. *)
open Model
open Conv
open Sexp
open Verdict
open D_bundle

let ilen = List.length
let nat_n (x : n) = int_of_n x
let hasf (fl : n) (bit : int) = (int_of_n (N.coq_land fl (n_of_int bit))) <> 0

let payload_block (b : bundle) = List.find_opt (fun c -> nat_n (c_type c) = 1) b.b_blocks
let data_of (c : cblock) = fg_data c
let ext_blocks (b : bundle) = List.filter (fun c -> nat_n (c_type c) <> 1) b.b_blocks
let replicated l = List.filter (fun c -> hasf c.c_flags 1) l

let rec drop k l = if k <= 0 then l else match l with [] -> [] | _ :: t -> drop (k - 1) t
let rec take k l = if k <= 0 then [] else match l with [] -> [] | x :: t -> x :: take (k - 1) t
let rec is_prefix a l = match a, l with
  | [], _ -> true
  | x :: a', y :: l' -> x = y && is_prefix a' l'
  | _, [] -> false

type fobs = { fdump : Sexp.t; fb : bundle; fwire : string option }   (* wire as the x<hex> atom *)

let wire_of s = match s with Atom a -> Some a | _ -> None
let wire_len a = (String.length a - 1) / 2

let bucket k = if k = 2 then "n2" else if k <= 4 then "n3-4" else if k <= 16 then "n5-16" else if k <= 100 then "n17-100" else "n>100"

(* ---- the property's own checker ---------------------------------------------------------- *)
let check_property (now : n) (mtu : int) (bdump : Sexp.t) (b : bundle) (bwire : string option)
    (res : Sexp.t) (reasm : Sexp.t) : verdict list =
  let r = ref [] in
  let fail k d = if not (List.exists (function Propfail (k', _) -> k' = k | _ -> false) !r) then r := Propfail (k, d) :: !r in
  let nofrag = hasf b.b_pri.p_flags 4 in
  let isfrag = hasf b.b_pri.p_flags 1 in
  let fits = (match bwire with Some w -> wire_len w <= mtu | None -> false) in
  let pdata = (match payload_block b with Some c -> Some (data_of c) | None -> None) in
  (match lst res with
   | [Atom "panic"; _] -> fail "frag.panic" "Fragment panicked"
   | [Atom "err"] ->
     if fits && not nofrag then fail "frag.fits.refused" "a bundle that fits the maximum size is refused"
   | [Atom "ok"; fl] ->
     let fs = List.map (fun e -> match lst e with
         | [d; w] -> { fdump = d; fb = bundle_of_dump d; fwire = wire_of w }
         | _ -> raise (Bad "fragment entry")) (lst fl) in
     if nofrag then fail "frag.must-not-fragment.accepted" "a must-not-fragment bundle is not refused";
     let same_as_b f = Sexp.to_string f.fdump = Sexp.to_string bdump in
     if fs = [] then begin
       if pdata = Some [] then fail "frag.empty-payload.empty-list" "empty payload: Fragment returns an empty list"
       else fail "frag.empty-list" "Fragment returns an empty list"
     end;
     (* sizes *)
     List.iteri (fun k f -> match f.fwire with
         | None -> fail "frag.fragment.unserialisable" (Printf.sprintf "fragment %d cannot be serialised" k)
         | Some w -> if wire_len w > mtu then
             fail "frag.size.exceeds-mtu" (Printf.sprintf "fragment %d serialises to %d > %d bytes" k (wire_len w) mtu)) fs;
     if fits && not nofrag then begin
       match fs with
       | [f] when same_as_b f -> ()
       | [] -> ()
       | [_] -> fail "frag.fits.changed" "a bundle that fits is returned changed"
       | _ -> fail "frag.fits.split" (Printf.sprintf "a bundle of %d bytes is split for maximum size %d"
                                       (match bwire with Some w -> wire_len w | None -> -1) mtu)
     end;
     (match fs with
      | [] -> ()
      | [f] when same_as_b f -> ()
      | _ ->
        (* real fragments *)
        let p = b.b_pri in
        let data = (match pdata with Some d -> d | None -> []) in
        let total = if isfrag then p.p_total else n_of_int (ilen data) in
        let base = if isfrag then p.p_off else N0 in
        let pos = ref 0 in
        let rest = ref data in
        List.iteri (fun k f ->
            let q = f.fb.b_pri in
            if not (hasf q.p_flags 1) then fail "frag.field.not-fragment" (Printf.sprintf "fragment %d lacks the fragment flag" k);
            if N.coq_lor p.p_flags (n_of_int 1) <> q.p_flags then fail "frag.field.flags" (Printf.sprintf "fragment %d: control flags differ" k);
            if q.p_src <> p.p_src || q.p_time <> p.p_time || q.p_seq <> p.p_seq || q.p_dst <> p.p_dst
               || q.p_rpt <> p.p_rpt || q.p_life <> p.p_life || q.p_crc <> p.p_crc then
              fail "frag.field.differs" (Printf.sprintf "fragment %d: source/timestamp/destination/report-to/lifetime differ" k);
            if q.p_total <> total then fail "frag.total" (Printf.sprintf "fragment %d: total length %s, payload %s" k (dec_of_n q.p_total) (dec_of_n total));
            let exp_off = N.add base (n_of_int !pos) in
            (* offsets are compared modulo 2^64 only when the input is itself a fragment with an absurd offset *)
            let off_ok = q.p_off = exp_off || (isfrag && q.p_off = N.modulo exp_off (n_of_dec "18446744073709551616")) in
            if not off_ok then begin
              if N.ltb exp_off q.p_off then fail "frag.partition.gap" (Printf.sprintf "fragment %d starts at %s, expected %s" k (dec_of_n q.p_off) (dec_of_n exp_off))
              else fail "frag.partition.overlap" (Printf.sprintf "fragment %d starts at %s, expected %s" k (dec_of_n q.p_off) (dec_of_n exp_off))
            end;
            (match List.rev f.fb.b_blocks with
             | pl :: exts_rev when nat_n (c_type pl) = 1 ->
               let d = data_of pl in
               if d = [] && data <> [] then fail "frag.partition.empty-piece" (Printf.sprintf "fragment %d carries no payload" k);
               if not (is_prefix d !rest) then fail "frag.partition.data" (Printf.sprintf "fragment %d: payload slice differs from the original" k);
               pos := !pos + ilen d; rest := drop (ilen d) !rest;
               (match payload_block b with
                | Some opl -> if pl.c_flags <> opl.c_flags || pl.c_crc <> opl.c_crc || pl.c_num <> opl.c_num then
                    fail "frag.blocks.payload" (Printf.sprintf "fragment %d: payload block number/flags/CRC type differ" k)
                | None -> ());
               let exts = List.rev exts_rev in
               if k = 0 then begin
                 if exts <> ext_blocks b then fail "frag.blocks.first" "first fragment does not carry all extension blocks unchanged"
               end else begin
                 if exts <> replicated (ext_blocks b) then
                   fail "frag.blocks.replicate" (Printf.sprintf "fragment %d does not carry exactly the replicate-flagged blocks unchanged" k)
               end
             | _ -> fail "frag.blocks.payload-not-last" (Printf.sprintf "fragment %d: last block is not the payload block" k));
            if not (check_valid now f.fb) then fail "frag.fragment.invalid" (Printf.sprintf "fragment %d fails CheckValid" k)
          ) fs;
        if !rest <> [] then fail "frag.partition.short" (Printf.sprintf "fragments end at %d of %d" !pos (ilen data));
        (* reassembly in any order yields the original serialisation *)
        if not isfrag && check_valid now b then
          List.iter (fun e -> match lst e with
              | [_; o] ->
                (match lst o, bwire with
                 | [Atom "ok"; w], Some bw -> if atom w <> bw then fail "frag.reassemble.bytes-differ" "reassembled bundle serialises differently from the original"
                 | [Atom "ok"; _], None -> ()
                 | [Atom "panic"; _], _ -> fail "frag.reassemble.panic" "ReassembleFragments panicked"
                 | _ -> fail "frag.reassemble.fails" "ReassembleFragments refuses the fragments")
              | _ -> raise (Bad "reasm entry")) (lst reasm))
   | _ -> raise (Bad "result"));
  !r

(* ---- correspondence with the model -------------------------------------------------------- *)
let frag_case = function
  | [tag; now; mtu; bdump; bwire; res; reasm] ->
    let now = s_n now in
    let mtu_i = s_int mtu in
    let b = bundle_of_dump bdump in
    if has_multi_map b then [Ok_ ["skipped-multi-map"]] else begin
      let r = ref [] in
      let tags = ref [s_sym tag] in
      let bw = wire_of bwire in
      (* the model's encoder agrees with the implementation's on the input *)
      (match enc_bundle b, bw with
       | Some e, Some w -> if hex_of_bytes e <> w then r := Mismatch "input bundle: encoded bytes differ" :: !r
       | None, None -> ()
       | _ -> r := Mismatch "input bundle: encodability differs" :: !r);
      (* VERIF_C09_ORIG=1: compare with the model of the code BEFORE the repairs (validation of the witnesses
         of Properties/C09.v against the unrepaired tree; fragments only, no reassembly) *)
      let orig = (Sys.getenv_opt "VERIF_C09_ORIG" = Some "1") in
      let m = if orig then fg_fragment_orig now b (n_of_int mtu_i) else fg_fragment now b (n_of_int mtu_i) in
      (match m, lst res with
       | FFuel, _ -> r := Mismatch "model ran out of fuel" :: !r
       | FErr, [Atom "err"] -> tags := "err" :: !tags
       | FErr, _ -> r := Mismatch "model: error, implementation: no error" :: !r
       | FOk _, [Atom "err"] -> r := Mismatch "model: fragments, implementation: error" :: !r
       | FOk mfs, [Atom "ok"; fl] ->
         let fl = lst fl in
         if ilen mfs <> ilen fl then r := Mismatch (Printf.sprintf "fragment count: model %d impl %d" (ilen mfs) (ilen fl)) :: !r
         else begin
           List.iteri (fun k (mf, e) -> match lst e with
               | [d; w] ->
                 if dump_bundle mf <> Sexp.to_string d then r := Mismatch (Printf.sprintf "fragment %d: structure differs, model %s" k (dump_bundle mf)) :: !r
                 else (match enc_bundle mf, wire_of w with
                     | Some eb, Some w -> if hex_of_bytes eb <> w then r := Mismatch (Printf.sprintf "fragment %d: bytes differ" k) :: !r
                     | None, None -> ()
                     | _ -> r := Mismatch (Printf.sprintf "fragment %d: encodability differs" k) :: !r)
               | _ -> raise (Bad "fragment entry")) (List.combine mfs fl);
           (match mfs with
            | [_] -> tags := "single" :: !tags
            | _ -> tags := bucket (ilen mfs) :: !tags);
           (* reassembly of the implementation's fragments in the recorded orders *)
           if !r = [] && ilen mfs >= 2 && not orig then begin
             let arr = Array.of_list mfs in
             List.iter (fun e -> match lst e with
                 | [ord; o] ->
                   let inp = List.map (fun i -> arr.(s_int i)) (lst ord) in
                   (match fg_reassemble now inp, lst o with
                    | ROk rb, [Atom "ok"; w] ->
                      (match enc_bundle rb with
                       | Some eb -> if hex_of_bytes eb <> atom w then r := Mismatch "reassembled bytes differ from the model's" :: !r
                       | None -> r := Mismatch "model cannot encode the reassembled bundle" :: !r)
                    | RErr, [Atom "err"] -> tags := "reasm-err" :: !tags
                    | RPanic, [Atom "panic"; _] -> ()
                    | _ -> r := Mismatch "reassembly outcome differs" :: !r)
                 | _ -> raise (Bad "reasm entry")) (lst reasm);
             tags := "reassembled" :: !tags
           end
         end
       | _, [Atom "panic"; _] -> ()
       | _ -> raise (Bad "result"));
      if hasf b.b_pri.p_flags 4 then tags := "must-not-fragment" :: !tags;
      if hasf b.b_pri.p_flags 1 then tags := "input-is-fragment" :: !tags;
      (match payload_block b with
       | Some c -> let l = ilen (data_of c) in
         tags := (if l = 0 then "p0" else if l < 24 then "p<24" else if l < 256 then "p<256" else if l < 65536 then "p<64K" else "p>=64K") :: !tags
       | None -> tags := "no-payload" :: !tags);
      let pf = check_property now mtu_i bdump b bw res reasm in
      let all = pf @ !r in
      if all = [] then [Ok_ !tags] else all
    end
  | _ -> raise (Bad "frag case")

let () = register "C09frag" "frag" frag_case
